// Package vpipe is the harness transport for schedx: an in-memory full-duplex
// byte pipe whose operations are scheduler points.
package vpipe

import (
	"errors"
	"io"
	"time"
	"unsafe"

	"verif/engine/vs"
	"verif/engine/vtime"
)

// ErrTransport is the error injected by FailRead/FailWrite.
var ErrTransport = errors.New("vpipe: injected transport failure")

// ErrTransient is reported once, together with data, by a Read of a pipe with GlitchAfter set.
var ErrTransient = errors.New("vpipe: transient read failure")

// Pipe is the connection-side io.ReadWriteCloser plus the peer-side controls.
type Pipe struct {
	// OnWrite, if set, runs (in the writer's task) each time bytes are accepted by Write.
	OnWrite    func()
	In         []byte // peer -> connection, not yet read
	InEOF      bool   // peer ended its sending side
	InErr      error  // transport read failure once In is drained
	Out        []byte // everything the connection wrote
	Taken      int    // bytes of Out the peer has consumed (bounded window only)
	Window     int    // 0 = unbounded, else max unconsumed bytes before Write blocks
	OutErr     error  // transport write failure
	Closed     bool   // connection side closed
	ClosedAt   int64  // virtual time of the first Close
	NClose     int
	ShortReads bool          // offer "deliver 1 byte" as an environment deviation
	SplitRead  bool          // a Read that obtained data returns in a second step (other tasks may run in between)
	SplitWrite bool          // a Write whose bytes were accepted returns in a second step
	MaxRead    int           // > 0: a Read delivers at most this many bytes (keeps the library's read-ahead small)
	CloseDelay time.Duration // virtual time Close takes to return (the transport is closed at once; e.g. a lingering close)
	// StickyRead > 0: a transport whose Read does not return on Close: for that long after
	// Close a Read stays blocked, unless late bytes from the peer arrive, which it delivers
	StickyRead time.Duration
	CloseErr   error // what Close returns (the transport is closed all the same), e.g. a TLS close_notify failure

	// GlitchAfter > 0: the Read that delivers the GlitchAfter-th byte (counted over all reads) ends
	// there and reports ErrTransient together with its data, once; the transport goes on working
	// (a TLS record that failed to decrypt after earlier ones were delivered, an EINTR surfaced by a
	// wrapper)
	GlitchAfter int
	delivered   int

	Writes []int // size of every chunk accepted (for atomicity diagnostics)
	Reads  int

	r, w int // happens-before objects of the two directions
}

func New() *Pipe { return &Pipe{} }

func (p *Pipe) RObj() unsafe.Pointer { return unsafe.Pointer(&p.r) }
func (p *Pipe) WObj() unsafe.Pointer { return unsafe.Pointer(&p.w) }

// Read implements the connection's transport read.
func (p *Pipe) Read(b []byte) (n int, err error) {
	if len(b) == 0 {
		return 0, nil
	}
	obj := p.RObj()
	alt := vs.Point(&vs.Op{Desc: "pipe.Read", Ready: func() []int {
		if p.Closed && p.StickyRead > 0 && vs.W.Now < p.ClosedAt+int64(p.StickyRead) {
			if len(p.In) > 0 {
				return []int{0}
			}
			return nil
		}
		if p.Closed || p.InErr != nil && len(p.In) == 0 || p.InEOF && len(p.In) == 0 {
			return []int{0}
		}
		if len(p.In) > 0 {
			if p.ShortReads && len(p.In) >= 2 && len(b) >= 2 {
				return []int{0, 1}
			}
			return []int{0}
		}
		return nil
	}, Fire: func(alt int) {
		vs.RaceAcquire(obj)
		defer vs.RaceRelease(obj)
		p.Reads++
		sticky := p.Closed && p.StickyRead > 0 && vs.W.Now < p.ClosedAt+int64(p.StickyRead) && len(p.In) > 0
		switch {
		case p.Closed && !sticky:
			err = io.ErrClosedPipe
		case len(p.In) > 0:
			m := len(p.In)
			if p.MaxRead > 0 && m > p.MaxRead {
				m = p.MaxRead
			}
			if alt == 1 {
				m = 1
			}
			glitch := false
			if p.GlitchAfter > 0 && p.delivered < p.GlitchAfter && p.delivered+m >= p.GlitchAfter {
				m = p.GlitchAfter - p.delivered
				glitch = true
			}
			if m > len(b) {
				m = len(b)
				glitch = false
			}
			n = copy(b, p.In[:m])
			p.In = p.In[n:]
			p.delivered += n
			if glitch {
				err = ErrTransient
			}
		case p.InErr != nil:
			err = p.InErr
		default:
			err = io.EOF
		}
	}, Objs: func(int) ([]unsafe.Pointer, []unsafe.Pointer, *vs.Task) {
		return nil, []unsafe.Pointer{obj}, nil
	}, Cost: func(alt int) int {
		if alt == 1 {
			return vs.CostEnv
		}
		return vs.CostNone
	}})
	_ = alt
	if p.SplitRead && n > 0 {
		// the data is in the caller's buffer but the call has not returned yet
		vs.Yield("pipe.Read:return")
	}
	return
}

// Write implements the connection's transport write. With a bounded window
// it blocks, chunk by chunk, until the peer drains.
func (p *Pipe) Write(b []byte) (n int, err error) {
	obj := p.WObj()
	for {
		rest := b[n:]
		vs.Point(&vs.Op{Desc: "pipe.Write", Ready: func() []int {
			if p.Closed || p.OutErr != nil || p.Window == 0 || len(p.Out)-p.Taken < p.Window {
				return []int{0}
			}
			return nil
		}, Fire: func(int) {
			vs.RaceAcquire(obj)
			defer vs.RaceRelease(obj)
			switch {
			case p.Closed:
				err = io.ErrClosedPipe
			case p.OutErr != nil:
				err = p.OutErr
			default:
				m := len(rest)
				if p.Window > 0 {
					if space := p.Window - (len(p.Out) - p.Taken); m > space {
						m = space
					}
				}
				if p.OnWrite != nil {
					p.OnWrite()
				}
				p.Out = append(p.Out, rest[:m]...)
				p.Writes = append(p.Writes, m)
				n += m
			}
		}, Objs: func(int) ([]unsafe.Pointer, []unsafe.Pointer, *vs.Task) {
			return nil, []unsafe.Pointer{obj}, nil
		}})
		if err != nil || n == len(b) {
			if p.SplitWrite && err == nil && n > 0 {
				// the bytes are on the wire but the call has not returned yet
				vs.Yield("pipe.Write:return")
			}
			return
		}
	}
}

// Close closes the connection side; blocked reads and writes fail.
func (p *Pipe) Close() error {
	vs.Point(&vs.Op{Desc: "pipe.Close", Ready: func() []int { return []int{0} }, Fire: func(int) {
		vs.RaceAcquire(p.RObj())
		vs.RaceAcquire(p.WObj())
		if !p.Closed {
			p.ClosedAt = vs.W.Now
			if p.StickyRead > 0 {
				vs.W.AddTimer(int64(p.StickyRead), func() {}) // virtual time must be able to reach the end of the sticky period
			}
		}
		p.Closed = true
		p.NClose++
		vs.RaceRelease(p.RObj())
		vs.RaceRelease(p.WObj())
	}, Objs: func(int) ([]unsafe.Pointer, []unsafe.Pointer, *vs.Task) {
		return nil, []unsafe.Pointer{p.RObj(), p.WObj()}, nil
	}})
	if p.CloseDelay > 0 {
		vtime.Sleep(p.CloseDelay)
	}
	return p.CloseErr
}

// ---- peer side (called from harness tasks)

// Send delivers bytes to the connection's read side.
func (p *Pipe) Send(b []byte) {
	vs.BlockOn(p.RObj(), "peer.Send", nil, func() { p.In = append(p.In, b...) })
}

// SendEOF ends the peer's sending side (reads see io.EOF after the queue drains).
func (p *Pipe) SendEOF() {
	vs.BlockOn(p.RObj(), "peer.EOF", nil, func() { p.InEOF = true })
}

// FailRead makes reads fail with err after the queue drains.
func (p *Pipe) FailRead(err error) {
	vs.BlockOn(p.RObj(), "peer.FailRead", nil, func() { p.InErr = err })
}

// FailWrite makes writes fail.
func (p *Pipe) FailWrite(err error) {
	vs.BlockOn(p.WObj(), "peer.FailWrite", nil, func() { p.OutErr = err })
}

// WaitOut blocks the peer until cond holds on the bytes written so far (or the
// connection side is closed); it reports whether cond held.
func (p *Pipe) WaitOut(desc string, cond func(out []byte) bool) (ok bool) {
	obj := p.WObj()
	vs.Point(&vs.Op{Desc: "peer.WaitOut:" + desc, Ready: func() []int {
		if cond(p.Out) || p.Closed {
			return []int{0}
		}
		return nil
	}, Fire: func(int) {
		vs.RaceAcquire(obj)
		ok = cond(p.Out)
		vs.RaceRelease(obj)
	}, Objs: func(int) ([]unsafe.Pointer, []unsafe.Pointer, *vs.Task) {
		return []unsafe.Pointer{obj}, nil, nil
	}})
	return
}

// WaitDrained blocks the peer until the connection has read everything sent.
func (p *Pipe) WaitDrained() {
	obj := p.RObj()
	vs.Point(&vs.Op{Desc: "peer.WaitDrained", Ready: func() []int {
		if len(p.In) == 0 || p.Closed {
			return []int{0}
		}
		return nil
	}, Fire: func(int) {}, Objs: func(int) ([]unsafe.Pointer, []unsafe.Pointer, *vs.Task) {
		return []unsafe.Pointer{obj}, nil, nil
	}})
}

// Drain consumes n more bytes of a bounded window (n<0: everything).
func (p *Pipe) Drain(n int) {
	vs.BlockOn(p.WObj(), "peer.Drain", nil, func() {
		if n < 0 || p.Taken+n > len(p.Out) {
			p.Taken = len(p.Out)
		} else {
			p.Taken += n
		}
	})
}

// SetWindow changes the bound on unconsumed bytes (0 = unbounded).
func (p *Pipe) SetWindow(n int) {
	vs.BlockOn(p.WObj(), "peer.SetWindow", nil, func() { p.Window = n })
}
