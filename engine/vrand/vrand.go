// Package vrand replaces "crypto/rand" in the instrumented build: under the
// scheduler a counter generator (so wire bytes are reproducible), otherwise the
// real source.
package vrand

import (
	crand "crypto/rand"
	"io"
	"math/big"

	"verif/engine/vs"
)

type det struct{ x uint32 }

func (d *det) Read(p []byte) (int, error) {
	if vs.W == nil {
		return crand.Reader.Read(p)
	}
	for i := range p {
		d.x = d.x*1664525 + 1013904223
		p[i] = byte(d.x >> 24)
	}
	return len(p), nil
}

var theDet = &det{x: 1}

// Reader is the source the instrumented library reads masking keys from.
var Reader io.Reader = theDet

func init() { vs.RegisterReset(func() { theDet.x = 1 }) }

func Read(b []byte) (int, error) { return io.ReadFull(Reader, b) }

func Int(r io.Reader, max *big.Int) (*big.Int, error) { return crand.Int(r, max) }
