package vs

import (
	"reflect"
	"unsafe"
)

// Case is one arm of a select (or a lone send/receive).
type Case interface {
	chanPtr() unsafe.Pointer
	isSend() bool
	ready(w *World, self *Task) bool
	fire(w *World, self *Task)
	take() interface{}
	give(v interface{}, ok bool)
	reflectCase() reflect.SelectCase
	setRecv(v reflect.Value, ok bool)
}

// RCase is a receive arm; V and OK hold the result after Select returns.
type RCase[T any] struct {
	ch <-chan T
	V  T
	OK bool
}

// RecvCase builds a receive arm. It accepts chan T and <-chan T.
func RecvCase[T any](ch <-chan T) *RCase[T] { return &RCase[T]{ch: ch} }

// SCase is a send arm.
type SCase[T any] struct {
	ch chan<- T
	v  T
}

// SendCase builds a send arm.
func SendCase[T any](ch chan<- T, v T) *SCase[T] { return &SCase[T]{ch: ch, v: v} }

func (c *RCase[T]) chanPtr() unsafe.Pointer { return *(*unsafe.Pointer)(unsafe.Pointer(&c.ch)) }
func (c *SCase[T]) chanPtr() unsafe.Pointer { return *(*unsafe.Pointer)(unsafe.Pointer(&c.ch)) }
func (c *RCase[T]) isSend() bool            { return false }
func (c *SCase[T]) isSend() bool            { return true }
func (c *RCase[T]) take() interface{}       { return nil }
func (c *SCase[T]) take() interface{}       { return c.v }
func (c *RCase[T]) give(v interface{}, ok bool) {
	if v != nil {
		c.V = v.(T)
	}
	c.OK = ok
}
func (c *SCase[T]) give(interface{}, bool) {}

func (c *RCase[T]) reflectCase() reflect.SelectCase {
	return reflect.SelectCase{Dir: reflect.SelectRecv, Chan: reflect.ValueOf(c.ch)}
}
func (c *SCase[T]) reflectCase() reflect.SelectCase {
	return reflect.SelectCase{Dir: reflect.SelectSend, Chan: reflect.ValueOf(c.ch), Send: reflect.ValueOf(&c.v).Elem()}
}
func (c *RCase[T]) setRecv(v reflect.Value, ok bool) {
	if v.IsValid() {
		reflect.ValueOf(&c.V).Elem().Set(v)
	}
	c.OK = ok
}
func (c *SCase[T]) setRecv(reflect.Value, bool) {}

//go:noinline
func (w *World) isClosed(p unsafe.Pointer) bool {
	for _, q := range w.closed {
		if q == p {
			return true
		}
	}
	return false
}

//go:noinline
func (w *World) markClosed(p unsafe.Pointer, ch interface{}) {
	w.closed = append(w.closed, p)
	w.keep = append(w.keep, ch)
}

// partner finds a parked task with a matching arm on an unbuffered channel.
//
//go:noinline
func partner(w *World, self *Task, p unsafe.Pointer, wantSend bool) (*Task, int) {
	for _, t := range w.tasks {
		if t == self || t.done || t.op == nil || t.resolved {
			continue
		}
		// chans/sends were computed by the owner of the operation: other tasks'
		// case objects are not touched here (their memory belongs to the
		// instrumented package and reading it would look like a race)
		for i, cp := range t.op.chans {
			if t.op.sends[i] == wantSend && cp == p {
				return t, i
			}
		}
	}
	return nil, -1
}

func (c *RCase[T]) ready(w *World, self *Task) bool {
	if c.ch == nil {
		return false
	}
	if len(c.ch) > 0 || w.isClosed(c.chanPtr()) {
		return true
	}
	if cap(c.ch) == 0 {
		t, _ := partner(w, self, c.chanPtr(), true)
		return t != nil
	}
	return false
}

func (c *RCase[T]) fire(w *World, self *Task) {
	if len(c.ch) > 0 || w.isClosed(c.chanPtr()) {
		// real operation: gives the race detector the program's own edge
		select {
		case v, ok := <-c.ch:
			c.V, c.OK = v, ok
		default:
			panic("vs: receive expected to be ready")
		}
		return
	}
	t, i := partner(w, self, c.chanPtr(), true)
	RaceAcquire(unsafe.Pointer(&t.op.sync)) // the sender's park happens-before this receive
	c.give(t.op.cases[i].take(), true)
	resolve(t, i)
}

func (c *SCase[T]) ready(w *World, self *Task) bool {
	if c.ch == nil {
		return false
	}
	if w.isClosed(c.chanPtr()) {
		return true // will panic, like Go
	}
	if cap(c.ch) > 0 {
		return len(c.ch) < cap(c.ch)
	}
	t, _ := partner(w, self, c.chanPtr(), false)
	return t != nil
}

func (c *SCase[T]) fire(w *World, self *Task) {
	if w.isClosed(c.chanPtr()) {
		panic("send on closed channel")
	}
	if cap(c.ch) > 0 {
		select {
		case c.ch <- c.v:
		default:
			panic("vs: send expected to be ready")
		}
		return
	}
	t, i := partner(w, self, c.chanPtr(), false)
	RaceAcquire(unsafe.Pointer(&t.op.sync)) // the receiver's park happens-before the completion of this send
	t.op.cases[i].give(c.v, true)
	resolve(t, i)
}

// resolve completes the partner's operation; the partner resumes with a
// pseudo-operation that is always ready and selects arm idx.
//
//go:noinline
func resolve(t *Task, idx int) {
	t.resolved = true
	chp := t.op.chans[idx]
	old := t.op
	RaceRelease(unsafe.Pointer(&old.sync)) // this operation happens-before the partner's resumption
	t.op = &Op{Desc: "rendezvous-resume", Ready: func() []int { return []int{idx} }, Fire: func(int) {
		t.resolved = false
		RaceAcquire(unsafe.Pointer(&old.sync))
	}, Objs: func(int) ([]unsafe.Pointer, []unsafe.Pointer, *Task) {
		return []unsafe.Pointer{chp}, nil, nil
	}}
}

// Select implements a select statement over the given arms. It returns the
// index of the arm that fired, or -1 for default.
func Select(hasDefault bool, cases ...Case) int {
	w := W
	if w == nil {
		return passSelect(hasDefault, cases)
	}
	self := w.cur
	op := &Op{Desc: "select", cases: cases}
	for _, c := range cases {
		op.chans = append(op.chans, c.chanPtr())
		op.sends = append(op.sends, c.isSend())
	}
	if len(cases) == 1 && !hasDefault {
		if cases[0].isSend() {
			op.Desc = "send"
		} else {
			op.Desc = "recv"
		}
	}
	op.Ready = func() []int {
		var r []int
		for i, c := range cases {
			if c.ready(w, self) {
				r = append(r, i)
			}
		}
		if len(r) == 0 && hasDefault {
			return []int{-1}
		}
		return r
	}
	op.Fire = func(alt int) {
		if alt >= 0 {
			cases[alt].fire(w, self)
		}
	}
	op.Objs = func(alt int) (rd, wr []unsafe.Pointer, pt *Task) {
		for i, c := range cases {
			p := c.chanPtr()
			if p == nil {
				continue
			}
			if i == alt {
				if !c.isSend() && w.isClosed(p) {
					rd = append(rd, p) // receiving from a closed channel only observes it
				} else {
					wr = append(wr, p)
					if t, _ := partner(w, self, p, !c.isSend()); t != nil && isUnbufferedIdle(c) {
						pt = t
					}
				}
			} else {
				rd = append(rd, p)
			}
		}
		return
	}
	return Point(op)
}

// isUnbufferedIdle reports whether firing c must be a rendezvous.
//
//go:noinline
func isUnbufferedIdle(c Case) bool {
	type capper interface{ chanCap() int }
	if cc, ok := c.(capper); ok {
		return cc.chanCap() == 0
	}
	return false
}

func (c *RCase[T]) chanCap() int { return cap(c.ch) }
func (c *SCase[T]) chanCap() int { return cap(c.ch) }

func passSelect(hasDefault bool, cases []Case) int {
	rc := make([]reflect.SelectCase, 0, len(cases)+1)
	for _, c := range cases {
		rc = append(rc, c.reflectCase())
	}
	if hasDefault {
		rc = append(rc, reflect.SelectCase{Dir: reflect.SelectDefault})
	}
	i, v, ok := reflect.Select(rc)
	if i == len(cases) {
		return -1
	}
	cases[i].setRecv(v, ok)
	return i
}

// Send implements `ch <- v`.
func Send[T any](ch chan<- T, v T) {
	if W == nil {
		ch <- v
		return
	}
	Select(false, SendCase(ch, v))
}

// Recv implements `<-ch`.
func Recv[T any](ch <-chan T) T {
	if W == nil {
		return <-ch
	}
	c := RecvCase(ch)
	Select(false, c)
	return c.V
}

// Recv2 implements `v, ok := <-ch`.
func Recv2[T any](ch <-chan T) (T, bool) {
	if W == nil {
		v, ok := <-ch
		return v, ok
	}
	c := RecvCase(ch)
	Select(false, c)
	return c.V, c.OK
}

// Close implements close(ch).
func Close[T any](ch chan<- T) {
	w := W
	if w == nil {
		close(ch)
		return
	}
	p := *(*unsafe.Pointer)(unsafe.Pointer(&ch))
	Point(&Op{Desc: "close", Ready: func() []int { return []int{0} }, Fire: func(int) {
		if w.isClosed(p) {
			panic("close of closed channel")
		}
		w.markClosed(p, ch)
		close(ch)
	}, Objs: func(int) ([]unsafe.Pointer, []unsafe.Pointer, *Task) { return nil, []unsafe.Pointer{p}, nil }})
}

// CloseNoPoint closes ch from scheduler context (timer callbacks) or from
// inside another operation's Fire (context cancellation). Idempotent.
func CloseNoPoint[T any](w *World, ch chan T) {
	p := *(*unsafe.Pointer)(unsafe.Pointer(&ch))
	if !w.isClosed(p) {
		w.markClosed(p, ch)
		close(ch)
	}
	w.ClockTouch(p)
}

// ChanObj returns the happens-before object of a channel.
func ChanObj[T any](ch chan T) unsafe.Pointer { return *(*unsafe.Pointer)(unsafe.Pointer(&ch)) }
