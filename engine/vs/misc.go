package vs

import (
	"fmt"
	"os"
	"runtime"
	"sync/atomic"
	"time"
)

// SetFinalizer replaces runtime.SetFinalizer in the instrumented build: under
// the scheduler finalizers are disabled (a finalizer would run library code on
// a goroutine the scheduler does not own); in pass-through mode it is the real one.
func SetFinalizer(obj interface{}, finalizer interface{}) {
	if W != nil {
		return
	}
	runtime.SetFinalizer(obj, finalizer)
}

// Path of the timer (schedule-independent identity of its creation point).
func (h TimerHandle) Path() uint64 {
	if h.tm == nil {
		return 0
	}
	return h.tm.path
}

var progress int64

// StartWatchdog aborts the process when an execution makes no progress for
// limit of real time: a task is then blocked outside the scheduler (an
// uninstrumented blocking operation), which is an engine error, never a violation.
func StartWatchdog(limit time.Duration) {
	go func() {
		last := int64(-1)
		idle := time.Duration(0)
		const tick = 2 * time.Second
		for {
			time.Sleep(tick)
			cur := atomic.LoadInt64(&progress)
			if cur == last && atomic.LoadInt32(&running) == 1 {
				idle += tick
				if idle >= limit {
					fmt.Fprintln(os.Stderr, "ENGINE-ERROR: scheduler watchdog: no progress for", limit, "- a task is blocked outside the scheduler (uninstrumented blocking operation?)")
					buf := make([]byte, 1<<16)
					n := runtime.Stack(buf, true)
					os.Stderr.Write(buf[:n])
					os.Exit(3)
				}
			} else {
				idle = 0
			}
			last = cur
		}
	}()
}

var running int32

// MarkRunning brackets World.Run for the watchdog.
func MarkRunning(on bool) {
	if on {
		atomic.StoreInt32(&running, 1)
	} else {
		atomic.StoreInt32(&running, 0)
	}
}

// Tick records scheduler progress.
func Tick() { atomic.AddInt64(&progress, 1) }
