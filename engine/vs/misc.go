package vs

import (
	"fmt"
	"os"
	"runtime"
	"sync/atomic"
	"time"
)

// SetFinalizer replaces runtime.SetFinalizer in the instrumented build: under
// the scheduler finalizers are disabled (a finalizer would run library code on
// a goroutine the scheduler does not own); in pass-through mode it is the real one.
func SetFinalizer(obj interface{}, finalizer interface{}) {
	if W != nil {
		return
	}
	runtime.SetFinalizer(obj, finalizer)
}

// Path of the timer (schedule-independent identity of its creation point).
func (h TimerHandle) Path() uint64 {
	if h.tm == nil {
		return 0
	}
	return h.tm.path
}

var progress int64

// StartWatchdog aborts the process when an execution makes no progress for
// limit of real time: a task is then blocked outside the scheduler (an
// uninstrumented blocking operation), which is an engine error, never a violation.
func StartWatchdog(limit time.Duration) {
	go func() {
		last := int64(-1)
		idle := time.Duration(0)
		const tick = 2 * time.Second
		for {
			time.Sleep(tick)
			cur := atomic.LoadInt64(&progress)
			if cur == last && atomic.LoadInt32(&running) == 1 {
				idle += tick
				if idle >= limit {
					fmt.Fprintln(os.Stderr, "ENGINE-ERROR: scheduler watchdog: no progress for", limit, "- a task is blocked outside the scheduler (uninstrumented blocking operation?)")
					buf := make([]byte, 1<<16)
					n := runtime.Stack(buf, true)
					os.Stderr.Write(buf[:n])
					os.Exit(3)
				}
			} else {
				idle = 0
			}
			last = cur
		}
	}()
}

var running int32

// MarkRunning brackets World.Run for the watchdog.
func MarkRunning(on bool) {
	if on {
		atomic.StoreInt32(&running, 1)
	} else {
		atomic.StoreInt32(&running, 0)
	}
}

// Tick records scheduler progress.
func Tick() { atomic.AddInt64(&progress, 1) }

// Blocked reports whether t is parked in an operation with no enabled
// alternative, and the description of that operation.
func (w *World) Blocked(t *Task) (bool, string) {
	if t == nil || t.done || t.op == nil {
		return false, ""
	}
	return len(t.op.Ready()) == 0, t.op.Desc
}

// Quiesce parks the calling task until no other task has an enabled
// operation (everything the program set in motion has settled). Timers are
// not waited for.
func Quiesce() {
	w := W
	self := w.cur
	Point(&Op{Desc: "quiesce", Ready: func() []int {
		for _, t := range w.tasks {
			if t == self || t.done || t.op == nil {
				continue
			}
			if t.op.Desc == "quiesce" {
				continue
			}
			if len(t.op.Ready()) > 0 {
				return nil
			}
		}
		return []int{0}
	}, Fire: func(int) {}})
}
