//go:build !race

package vs

import "unsafe"

// RaceOn reports whether the binary was built with the race detector.
const RaceOn = false

func raceDisable()                 {}
func raceEnable()                  {}
func RaceAcquire(p unsafe.Pointer) {}
func RaceRelease(p unsafe.Pointer) {}
