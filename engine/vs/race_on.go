//go:build race

package vs

import (
	"runtime"
	"unsafe"
)

// RaceOn reports whether the binary was built with the race detector.
const RaceOn = true

func raceDisable() { runtime.RaceDisable() }
func raceEnable()  { runtime.RaceEnable() }

// RaceAcquire / RaceRelease annotate the synchronisation the shims emulate.
func RaceAcquire(p unsafe.Pointer) {
	if p != nil {
		runtime.RaceAcquire(p)
	}
}
func RaceRelease(p unsafe.Pointer) {
	if p != nil {
		runtime.RaceReleaseMerge(p)
	}
}
