// Package vs is the controlled cooperative scheduler under which the
// instrumented websocket package runs during schedx checks.
//
// Exactly one task runs at a time. Before every visible operation a task parks
// with an Op; the scheduler computes the enabled set in canonical order, picks
// one (task, alternative) - from the replay prefix, else choice 0 - and resumes
// that task, which applies the operation itself and runs to its next park.
//
// With no World attached (W == nil) every shim operation performs the real Go
// operation (pass-through mode), which is how the repository's own tests are
// run over the rewritten sources.
package vs

import (
	"fmt"
	"runtime"
	"unsafe"
)

// Cost kinds of an alternative.
const (
	CostNone = iota
	CostEnv  // a departure from the default environment answer (short read, ...)
)

// Op is a parked operation.
type Op struct {
	Desc  string
	Ready func() []int  // enabled alternatives; nil/empty = blocked
	Fire  func(alt int) // applied by the resumed task as its first action
	Objs  func(alt int) (reads, writes []unsafe.Pointer, partner *Task)
	Cost  func(alt int) int // CostNone / CostEnv; nil = CostNone
	cases []Case
	chans []unsafe.Pointer // channel of every case (computed by the owning task)
	sends []bool
	sync  int64 // race-annotation object: park -> partner's fire -> resumption
}

// Task is a goroutine under the scheduler.
type Task struct {
	ID       int // spawn order in this execution (slot in vector clocks = ID+1)
	Name     string
	Lib      bool   // spawned from inside the instrumented library (vs.Go)
	Path     uint64 // schedule-independent identity: hash(parent path, n-th child)
	Required bool   // the execution ends when all required tasks are done
	wake     chan struct{}
	op       *Op
	res      int
	done     bool
	started  bool
	resolved bool // a rendezvous partner already completed this task's operation
	fireSelf func()
	nchild   int
	nevent   int
	nfresh   int
	obj      int64 // address used for spawn/join race annotations
	Parent   *Task
}

func (t *Task) Done() bool { return t.done }

type timer struct {
	when   int64
	seq    int
	fn     func() // runs in scheduler context at firing (must not park)
	active bool
	path   uint64
}

// Choice is one element of an enabled set.
type Choice struct {
	T     int // task id, -1 for the clock
	Alt   int
	Timer bool
	Cost  int
}

// PointRec is one scheduling point of an execution.
type PointRec struct {
	Enabled []Choice
	Chosen  int
	CurIdx  int // number of leading entries that belong to the running task (0 if it is not enabled)
	Sig     uint32
}

// Budget is the remaining deviation budget (negative = unbounded).
type Budget struct{ P, T, E int }

// World is one execution.
type World struct {
	tasks  []*Task
	cur    *Task
	yield  chan struct{}
	closed []unsafe.Pointer
	keep   []interface{}
	Now    int64
	timers []*timer
	tseq   int
	abort  bool

	Points []PointRec
	prefix []int32
	sigs   []uint32 // expected signature per prefix point (0 = unchecked)
	Steps  int

	// results
	Deadlock   bool // required task unfinished, nothing enabled, no timer
	HorizonHit bool
	Diverged   string // replay divergence (engine error)
	StepLimit  bool   // the execution did not end within MaxSteps scheduling steps
	Stopped    bool   // stopped by StopAt (state already covered)
	Panic      string // a task panicked (library panic)

	Horizon      int64 // virtual-time horizon in ns (0 = none)
	TimerChoices bool  // offer "fire earliest timer now" as an alternative
	Trace        bool
	Log          []string
	MaxSteps     int

	// happens-before tracking
	tclk  [][]int32 // by slot (task id + 1; slot 0 = clock)
	objs  []unsafe.Pointer
	wclk  [][]int32
	rclk  [][]int32
	HashA uint64
	HashB uint64

	// StopAt is consulted at every point beyond the prefix, before choosing.
	StopAt func(w *World) bool

	inClock      bool
	clockWrites  []unsafe.Pointer
	clockSpawned []*Task

	Data interface{} // harness data
}

// W is the world of the running execution (nil = pass-through mode).
var W *World

var globalResets []func()

// RegisterReset registers a function run at the start of every execution
// (used by package-level shim state such as pools and the random source).
func RegisterReset(f func()) { globalResets = append(globalResets, f) }

// NewWorld starts a new execution that replays prefix and then takes choice 0.
func NewWorld(prefix []int32, sigs []uint32) *World {
	w := &World{yield: make(chan struct{}), prefix: prefix, sigs: sigs, MaxSteps: 200000}
	w.tclk = append(w.tclk, nil) // slot 0: clock
	for _, f := range globalResets {
		f()
	}
	W = w
	return w
}

func mix(h, v uint64) uint64 {
	h ^= v + 0x9e3779b97f4a7c15 + (h << 6) + (h >> 2)
	h *= 0xff51afd7ed558ccd
	h ^= h >> 33
	return h
}

func (w *World) spawn(name string, lib, required bool, parent *Task, fn func()) *Task {
	t := &Task{ID: len(w.tasks), Name: name, wake: make(chan struct{}), Lib: lib, Required: required, Parent: parent}
	if parent != nil {
		t.Path = mix(parent.Path, uint64(parent.nchild)+1)
		parent.nchild++
	} else {
		t.Path = mix(0x1234, uint64(len(w.tasks))+77)
	}
	w.tasks = append(w.tasks, t)
	// the child's start is ordered after the parent's current event
	var pc []int32
	if parent != nil {
		pc = w.tclk[parent.ID+1]
	}
	w.tclk = append(w.tclk, append([]int32(nil), pc...))
	t.op = &Op{Desc: "start", Ready: func() []int { return []int{0} }, Fire: func(int) {}}
	RaceRelease(unsafe.Pointer(&t.obj))
	go func() {
		raceDisable()
		<-t.wake
		raceEnable()
		defer func() {
			if r := recover(); r != nil {
				if w.Panic == "" {
					buf := make([]byte, 8192)
					n := runtime.Stack(buf, false)
					w.Panic = fmt.Sprintf("task %s: %v\n%s", t.Name, r, buf[:n])
				}
			}
			t.done = true
			t.op = nil
			RaceRelease(unsafe.Pointer(&t.obj))
			RaceRelease(unsafe.Pointer(&abortObj))
			raceDisable()
			w.yield <- struct{}{}
			raceEnable()
		}()
		if w.abort {
			RaceAcquire(unsafe.Pointer(&abortObj))
			return
		}
		t.started = true
		RaceAcquire(unsafe.Pointer(&t.obj))
		fn()
	}()
	return t
}

// Go is what rewritten `go f()` statements call.
func Go(fn func()) {
	w := W
	if w == nil {
		go fn()
		return
	}
	p := w.cur
	n := 0
	if p != nil {
		n = p.nchild
	}
	w.spawn(fmt.Sprintf("lib%d", n), true, false, p, fn)
	if p != nil {
		pn := p.Name
		w.tasks[len(w.tasks)-1].Name = pn + ">lib" + fmt.Sprint(n)
	}
}

// GoHarness spawns a harness task. required: the execution waits for it.
func (w *World) GoHarness(name string, required bool, fn func()) *Task {
	return w.spawn(name, false, required, w.cur, fn)
}

// Cur returns the running task.
func (w *World) Cur() *Task { return w.cur }

// CurPath returns the identity of the running task (0 if none or finished).
func (w *World) CurPath() uint64 {
	if w.cur == nil || w.cur.done {
		return 0
	}
	return w.cur.Path
}

// FreshPath returns an identity for an object the running task creates (the
// k-th such call of a task yields the same value in every execution in which
// the task behaves the same).
func (w *World) FreshPath() uint64 {
	if w.cur == nil {
		return mix(0x7777, uint64(len(w.tasks)))
	}
	w.cur.nfresh++
	return mix(w.cur.Path, 0x5150+uint64(w.cur.nfresh)<<8)
}

func (w *World) Tasks() []*Task { return w.tasks }

// Point parks the calling task with op and returns the fired alternative.
//
//go:noinline
func Point(op *Op) int {
	w := W
	t := w.cur
	if w.abort {
		runtime.Goexit()
	}
	t.op = op
	if len(op.cases) > 0 {
		RaceRelease(unsafe.Pointer(&op.sync))
	}
	RaceRelease(unsafe.Pointer(&abortObj)) // everything so far happens-before the unwinding at Abort
	raceDisable()
	w.yield <- struct{}{}
	<-t.wake
	raceEnable()
	if w.abort {
		RaceAcquire(unsafe.Pointer(&abortObj))
		runtime.Goexit()
	}
	if f := t.fireSelf; f != nil {
		t.fireSelf = nil
		f()
	}
	return t.res
}

// ---- virtual time

const never = int64(1) << 61

func (w *World) addTimer(d int64, fn func()) *timer {
	w.tseq++
	tm := &timer{when: w.Now + d, seq: w.tseq, fn: fn, active: true}
	if d >= never || tm.when < w.Now || tm.when >= never {
		tm.when = never
	}
	if d < 0 {
		tm.when = w.Now
	}
	if w.cur != nil {
		tm.path = mix(w.cur.Path, 0xabcd+uint64(w.cur.nevent)<<8)
	}
	w.timers = append(w.timers, tm)
	RaceRelease(unsafe.Pointer(tm))
	return tm
}

// TimerHandle is what vtime/vctx hold.
type TimerHandle struct{ tm *timer }

// AddTimer arms a timer firing after d virtual nanoseconds; fn runs in
// scheduler context (it may close channels, do non-blocking sends, spawn).
// Arming is recorded as an event on the timer object of the running task.
func (w *World) AddTimer(d int64, fn func()) TimerHandle {
	tm := w.addTimer(d, fn)
	w.SilentEvent(nil, []unsafe.Pointer{unsafe.Pointer(tm)})
	return TimerHandle{tm}
}

// Stop deactivates the timer and reports whether it was active. Callers must
// wrap it in a parking op when the result is visible to the program.
func (h TimerHandle) Stop() bool {
	if h.tm == nil {
		return false
	}
	a := h.tm.active
	h.tm.active = false
	return a
}

func (h TimerHandle) Active() bool        { return h.tm != nil && h.tm.active }
func (h TimerHandle) Obj() unsafe.Pointer { return unsafe.Pointer(h.tm) }
func (h TimerHandle) Valid() bool         { return h.tm != nil }

func (w *World) earliest() *timer {
	var best *timer
	for _, tm := range w.timers {
		if tm.active && tm.when < never && (best == nil || tm.when < best.when || tm.when == best.when && tm.seq < best.seq) {
			best = tm
		}
	}
	return best
}

func (w *World) compactTimers() {
	if len(w.timers) < 32 {
		return
	}
	j := 0
	for _, tm := range w.timers {
		if tm.active {
			w.timers[j] = tm
			j++
		}
	}
	for k := j; k < len(w.timers); k++ {
		w.timers[k] = nil
	}
	w.timers = w.timers[:j]
}

var abortObj int // race-annotation object ordering all unwinding after the run

var clockObj int // address identifies the virtual clock as an HB object

// ClockObj is the happens-before object of the virtual clock.
func ClockObj() unsafe.Pointer { return unsafe.Pointer(&clockObj) }

func (w *World) fireTimer(tm *timer) {
	tm.active = false
	if tm.when > w.Now {
		w.Now = tm.when
	}
	w.inClock = true
	w.clockWrites = w.clockWrites[:0]
	w.clockWrites = append(w.clockWrites, ClockObj(), unsafe.Pointer(tm))
	RaceAcquire(unsafe.Pointer(tm))
	saved := w.cur
	w.cur = nil
	tm.fn()
	w.cur = saved
	w.inClock = false
	w.event(-1, tm.path, int(tm.seq&0xffff), nil, w.clockWrites, nil)
	// tasks spawned by the firing start after it
	for _, t := range w.clockSpawned {
		w.tclk[t.ID+1] = append([]int32(nil), w.tclk[0]...)
	}
	w.clockSpawned = w.clockSpawned[:0]
	if w.Trace {
		w.Log = append(w.Log, fmt.Sprintf("t=%dms clock: timer fires", w.Now/1e6))
	}
	w.compactTimers()
}

// ClockTouch is called by timer callbacks to declare objects they write.
//
//go:noinline
func (w *World) ClockTouch(p unsafe.Pointer) {
	if w.inClock {
		w.clockWrites = append(w.clockWrites, p)
	}
}

// ClockGo spawns a task from a timer callback (time.AfterFunc).
func (w *World) ClockGo(name string, lib bool, path uint64, fn func()) {
	t := w.spawn(name, lib, false, nil, fn)
	t.Path = path
	w.clockSpawned = append(w.clockSpawned, t)
}

// InClock reports whether the caller runs inside a timer callback.
func (w *World) InClock() bool { return w.inClock }

// ---- the scheduler loop

func (w *World) requiredLeft() bool {
	any := false
	for _, t := range w.tasks {
		if t.Required {
			any = true
			if !t.done {
				return true
			}
		}
	}
	return !any && w.anyLive()
}

func (w *World) anyLive() bool {
	for _, t := range w.tasks {
		if !t.done {
			return true
		}
	}
	return false
}

func sigOf(c Choice, n int, path uint64) uint32 {
	h := mix(uint64(c.Alt+5), path)
	h = mix(h, uint64(n))
	if c.Timer {
		h = mix(h, 99)
	}
	s := uint32(h)
	if s == 0 {
		s = 1
	}
	return s
}

// Run executes the schedule: replay the prefix, then choice 0 at every point.
func (w *World) Run() {
	w.run()
	// everything the tasks did before their last park happens-before what the
	// harness reads after the run (race mode)
	RaceAcquire(unsafe.Pointer(&abortObj))
}

func (w *World) run() {
	w.settle()
	for {
		if !w.requiredLeft() {
			return
		}
		if w.Panic != "" {
			return
		}
		var en []Choice
		curN := 0
		order := make([]*Task, 0, len(w.tasks))
		if w.cur != nil && !w.cur.done {
			order = append(order, w.cur)
		}
		for _, t := range w.tasks {
			if t != w.cur && !t.done {
				order = append(order, t)
			}
		}
		for _, t := range order {
			if t.op == nil {
				continue
			}
			for _, a := range t.op.Ready() {
				c := Choice{T: t.ID, Alt: a}
				if t.op.Cost != nil {
					c.Cost = t.op.Cost(a)
				}
				if t == w.cur {
					curN++
				}
				en = append(en, c)
			}
		}
		tm := w.earliest()
		if len(en) == 0 {
			if tm != nil {
				if w.Horizon > 0 && tm.when > w.Horizon {
					w.HorizonHit = true
					return
				}
				w.fireTimer(tm)
				continue
			}
			w.Deadlock = true
			return
		}
		// A timer may overtake runnable tasks only when it is due at the current
		// instant: tasks run in zero virtual time, so the only real nondeterminism
		// is the order of events that fall on the same instant.
		if tm != nil && w.TimerChoices && tm.when <= w.Now {
			en = append(en, Choice{T: -1, Timer: true})
		}
		if len(w.Points) >= len(w.prefix) && w.StopAt != nil && w.StopAt(w) {
			w.Stopped = true
			return
		}
		k := 0
		np := len(w.Points)
		if np < len(w.prefix) {
			k = int(w.prefix[np])
			if k >= len(en) {
				w.Diverged = fmt.Sprintf("replay divergence at point %d: choice %d of %d enabled", np, k, len(en))
				return
			}
		}
		c := en[k]
		var path uint64
		if !c.Timer {
			path = w.tasks[c.T].Path
		}
		sig := sigOf(c, len(en), path)
		if np < len(w.sigs) && w.sigs[np] != 0 && w.sigs[np] != sig {
			w.Diverged = fmt.Sprintf("replay divergence at point %d: signature mismatch", np)
			return
		}
		w.Points = append(w.Points, PointRec{Enabled: en, Chosen: k, CurIdx: curN, Sig: sig})
		if c.Timer {
			w.fireTimer(tm)
			continue
		}
		t := w.tasks[c.T]
		op := t.op
		t.op = nil
		alt := c.Alt
		var rd, wr []unsafe.Pointer
		var partner *Task
		if op.Objs != nil {
			rd, wr, partner = op.Objs(alt)
		}
		w.event(t.ID, t.Path, alt, rd, wr, partner)
		if w.Trace {
			w.Log = append(w.Log, fmt.Sprintf("t=%dms %s: %s alt=%d", w.Now/1e6, t.Name, op.Desc, alt))
		}
		t.fireSelf = func() { op.Fire(alt) }
		t.res = alt
		w.cur = t
		w.Steps++
		Tick()
		if w.Steps > w.MaxSteps {
			// harness programs are finite: an execution this long means that library
			// code loops through scheduling points without making progress
			w.StepLimit = true
			return
		}
		raceDisable()
		t.wake <- struct{}{}
		<-w.yield
		raceEnable()
		w.settle()
	}
}

// settle runs, without a scheduling point, every task whose next segment is
// purely local: a task that was just spawned (up to its first visible
// operation) and a task whose rendezvous was completed by its partner (from
// the select it was parked in up to its next visible operation). Local code
// commutes with everything in data-race-free programs, so attaching it to the
// step that made it runnable loses no behaviour.
func (w *World) settle() {
	saved := w.cur
	for again := true; again; {
		again = false
		for i := 0; i < len(w.tasks); i++ {
			t := w.tasks[i]
			if t.done || t.op == nil {
				continue
			}
			if !(t.resolved || !t.started) {
				continue
			}
			op := t.op
			t.op = nil
			alt := 0
			if r := op.Ready(); len(r) > 0 {
				alt = r[0]
			}
			var rd, wr []unsafe.Pointer
			if op.Objs != nil {
				rd, wr, _ = op.Objs(alt)
			}
			w.event(t.ID, t.Path, alt, rd, wr, nil)
			if w.Trace {
				w.Log = append(w.Log, fmt.Sprintf("t=%dms %s: (%s)", w.Now/1e6, t.Name, op.Desc))
			}
			t.fireSelf = func() { op.Fire(alt) }
			t.res = alt
			w.cur = t
			w.Steps++
			raceDisable()
			t.wake <- struct{}{}
			<-w.yield
			raceEnable()
			again = true
		}
	}
	w.cur = saved
}

// Abort unwinds all parked tasks; must be called after Run.
func (w *World) Abort() {
	w.abort = true
	for i := 0; i < len(w.tasks); i++ {
		t := w.tasks[i]
		if !t.done {
			raceDisable()
			t.wake <- struct{}{}
			<-w.yield
			raceEnable()
		}
		RaceAcquire(unsafe.Pointer(&t.obj))
	}
	W = nil
}

// LiveLib lists unfinished tasks spawned from inside the library.
func (w *World) LiveLib() []string {
	var r []string
	for _, t := range w.tasks {
		if t.Lib && !t.done {
			r = append(r, t.Name)
		}
	}
	return r
}

// Choices returns the chosen index at every point of the execution.
func (w *World) Choices() []int32 {
	r := make([]int32, len(w.Points))
	for i, p := range w.Points {
		r[i] = int32(p.Chosen)
	}
	return r
}

// ---- happens-before events and the trace hash

func join(a, b []int32) []int32 {
	for len(a) < len(b) {
		a = append(a, 0)
	}
	for i, v := range b {
		if v > a[i] {
			a[i] = v
		}
	}
	return a
}

func (w *World) objIdx(p unsafe.Pointer) int {
	for i, o := range w.objs {
		if o == p {
			return i
		}
	}
	w.objs = append(w.objs, p)
	w.wclk = append(w.wclk, nil)
	w.rclk = append(w.rclk, nil)
	return len(w.objs) - 1
}

func (w *World) slotPath(slot int) uint64 {
	if slot == 0 {
		return 0xc10c
	}
	return w.tasks[slot-1].Path
}

// event stamps one fired operation with a vector clock and folds it into the
// commutative trace hash.
func (w *World) event(tid int, path uint64, alt int, reads, writes []unsafe.Pointer, partner *Task) {
	slot := tid + 1
	c := append([]int32(nil), w.tclk[slot]...)
	if partner != nil {
		c = join(c, w.tclk[partner.ID+1])
	}
	for _, o := range reads {
		c = join(c, w.wclk[w.objIdx(o)])
	}
	for _, o := range writes {
		i := w.objIdx(o)
		c = join(c, w.wclk[i])
		c = join(c, w.rclk[i])
	}
	for len(c) <= slot {
		c = append(c, 0)
	}
	c[slot]++
	w.tclk[slot] = c
	if partner != nil {
		w.tclk[partner.ID+1] = join(append([]int32(nil), w.tclk[partner.ID+1]...), c)
	}
	for _, o := range writes {
		i := w.objIdx(o)
		w.wclk[i] = c
		w.rclk[i] = nil
	}
	for _, o := range reads {
		i := w.objIdx(o)
		w.rclk[i] = join(append([]int32(nil), w.rclk[i]...), c)
	}
	var idx int
	if tid >= 0 {
		t := w.tasks[tid]
		idx = t.nevent
		t.nevent++
	} else {
		idx = int(c[0])
	}
	h := mix(path, uint64(alt)+3)
	h = mix(h, uint64(idx)+11)
	var s1, s2 uint64
	for i, v := range c {
		if v != 0 {
			e := mix(w.slotPath(i), uint64(v))
			s1 += e
			s2 += mix(e, 0x51ed)
		}
	}
	w.HashA += mix(h, s1)
	w.HashB += mix(mix(h, 0x77), s2)
}

// SilentEvent records an event of the running task without parking. It is
// used only for operations on objects no other task can know yet (arming a
// fresh timer) and for reads of the virtual clock.
func (w *World) SilentEvent(reads, writes []unsafe.Pointer) {
	if w.cur == nil {
		return
	}
	w.event(w.cur.ID, w.cur.Path, 1000, reads, writes, nil)
}

// ---- generic blocking operation

// BlockOn parks until cond holds, then runs act atomically. obj is the
// happens-before object written by the operation.
//
//go:noinline
func BlockOn(obj unsafe.Pointer, desc string, cond func() bool, act func()) {
	Point(&Op{Desc: desc, Ready: func() []int {
		if cond == nil || cond() {
			return []int{0}
		}
		return nil
	}, Fire: func(int) {
		RaceAcquire(obj)
		act()
		RaceRelease(obj)
	}, Objs: func(int) ([]unsafe.Pointer, []unsafe.Pointer, *Task) {
		return nil, []unsafe.Pointer{obj}, nil
	}})
}

// Yield is a scheduling point with no effect.
func Yield(desc string) {
	Point(&Op{Desc: desc, Ready: func() []int { return []int{0} }, Fire: func(int) {}})
}

// Active reports whether a world is attached.
func Active() bool { return W != nil }
