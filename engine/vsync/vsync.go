// Package vsync replaces "sync" in the instrumented build. Without a world
// attached every type behaves like its sync counterpart.
package vsync

import (
	"sync"
	"unsafe"

	"verif/engine/vs"
)

type Locker = sync.Locker
type Map = sync.Map

// Mutex

type Mutex struct {
	real   sync.Mutex
	locked bool
	dirty  bool
}

// Shim lock state of package-level mutexes must not leak from one execution
// into the next (an execution may be cut while a lock is held): every mutex
// locked under the scheduler is remembered and cleared at the next reset.
var dirtyMutexes []*Mutex
var dirtyRW []*RWMutex

func init() {
	vs.RegisterReset(func() {
		for _, m := range dirtyMutexes {
			m.locked, m.dirty = false, false
		}
		dirtyMutexes = dirtyMutexes[:0]
		for _, m := range dirtyRW {
			m.w, m.r, m.dirty = false, 0, false
		}
		dirtyRW = dirtyRW[:0]
	})
}

func (m *Mutex) touch() {
	if !m.dirty {
		m.dirty = true
		dirtyMutexes = append(dirtyMutexes, m)
	}
}

func (m *RWMutex) touch() {
	if !m.dirty {
		m.dirty = true
		dirtyRW = append(dirtyRW, m)
	}
}

func (m *Mutex) Lock() {
	if vs.W == nil {
		m.real.Lock()
		return
	}
	vs.BlockOn(unsafe.Pointer(m), "mutex.Lock", func() bool { return !m.locked }, func() { m.locked = true; m.touch() })
}

func (m *Mutex) TryLock() (ok bool) {
	if vs.W == nil {
		return m.real.TryLock()
	}
	vs.BlockOn(unsafe.Pointer(m), "mutex.TryLock", nil, func() {
		if !m.locked {
			m.locked = true
			m.touch()
			ok = true
		}
	})
	return ok
}

func (m *Mutex) Unlock() {
	if vs.W == nil {
		m.real.Unlock()
		return
	}
	vs.BlockOn(unsafe.Pointer(m), "mutex.Unlock", nil, func() {
		if !m.locked {
			panic("sync: unlock of unlocked mutex")
		}
		m.locked = false
	})
}

// RWMutex

type RWMutex struct {
	real  sync.RWMutex
	w     bool
	r     int
	dirty bool
}

func (m *RWMutex) Lock() {
	if vs.W == nil {
		m.real.Lock()
		return
	}
	vs.BlockOn(unsafe.Pointer(m), "rwmutex.Lock", func() bool { return !m.w && m.r == 0 }, func() { m.w = true; m.touch() })
}
func (m *RWMutex) Unlock() {
	if vs.W == nil {
		m.real.Unlock()
		return
	}
	vs.BlockOn(unsafe.Pointer(m), "rwmutex.Unlock", nil, func() { m.w = false })
}
func (m *RWMutex) RLock() {
	if vs.W == nil {
		m.real.RLock()
		return
	}
	vs.BlockOn(unsafe.Pointer(m), "rwmutex.RLock", func() bool { return !m.w }, func() { m.r++; m.touch() })
}
func (m *RWMutex) RUnlock() {
	if vs.W == nil {
		m.real.RUnlock()
		return
	}
	vs.BlockOn(unsafe.Pointer(m), "rwmutex.RUnlock", nil, func() { m.r-- })
}
func (m *RWMutex) TryLock() (ok bool) {
	if vs.W == nil {
		return m.real.TryLock()
	}
	vs.BlockOn(unsafe.Pointer(m), "rwmutex.TryLock", nil, func() {
		if !m.w && m.r == 0 {
			m.w = true
			m.touch()
			ok = true
		}
	})
	return
}
func (m *RWMutex) RLocker() Locker { return (*rlocker)(m) }

type rlocker RWMutex

func (r *rlocker) Lock()   { (*RWMutex)(r).RLock() }
func (r *rlocker) Unlock() { (*RWMutex)(r).RUnlock() }

// Once

type Once struct {
	real sync.Once
	m    Mutex
	done bool
}

func (o *Once) Do(f func()) {
	if vs.W == nil {
		o.real.Do(f)
		return
	}
	o.m.Lock()
	defer o.m.Unlock()
	if !o.done {
		defer func() { o.done = true }()
		f()
	}
}

// WaitGroup

type WaitGroup struct {
	real sync.WaitGroup
	n    int
}

func (wg *WaitGroup) Add(d int) {
	if vs.W == nil {
		wg.real.Add(d)
		return
	}
	vs.BlockOn(unsafe.Pointer(wg), "wg.Add", nil, func() {
		wg.n += d
		if wg.n < 0 {
			panic("sync: negative WaitGroup counter")
		}
	})
}
func (wg *WaitGroup) Done() { wg.Add(-1) }
func (wg *WaitGroup) Wait() {
	if vs.W == nil {
		wg.real.Wait()
		return
	}
	vs.BlockOn(unsafe.Pointer(wg), "wg.Wait", func() bool { return wg.n == 0 }, func() {})
}

// Cond (minimal: Signal wakes the lowest waiter, Broadcast all)

type Cond struct {
	L       Locker
	real    *sync.Cond
	waiting []*int
}

func NewCond(l Locker) *Cond { return &Cond{L: l, real: sync.NewCond(l)} }

func (c *Cond) Wait() {
	if vs.W == nil {
		c.real.Wait()
		return
	}
	flag := new(int)
	c.waiting = append(c.waiting, flag)
	c.L.Unlock()
	vs.BlockOn(unsafe.Pointer(c), "cond.Wait", func() bool { return *flag == 1 }, func() {})
	c.L.Lock()
}
func (c *Cond) Signal() {
	if vs.W == nil {
		c.real.Signal()
		return
	}
	vs.BlockOn(unsafe.Pointer(c), "cond.Signal", nil, func() {
		if len(c.waiting) > 0 {
			*c.waiting[0] = 1
			c.waiting = c.waiting[1:]
		}
	})
}
func (c *Cond) Broadcast() {
	if vs.W == nil {
		c.real.Broadcast()
		return
	}
	vs.BlockOn(unsafe.Pointer(c), "cond.Broadcast", nil, func() {
		for _, f := range c.waiting {
			*f = 1
		}
		c.waiting = nil
	})
}

// Pool: under the scheduler a deterministic LIFO stack, emptied before every
// execution. This makes "the next Get returns the object just Put" certain.
type Pool struct {
	New   func() interface{}
	real  sync.Pool
	items []interface{}
	reg   bool
	// Gets/Puts are counted for the pool-aliasing invariant of C07.
}

var allPools []*Pool

func init() {
	vs.RegisterReset(func() {
		for _, p := range allPools {
			p.items = nil
		}
		PoolLog = PoolLog[:0]
	})
}

// PoolEvent is recorded for every Get/Put under the scheduler.
type PoolEvent struct {
	Pool *Pool
	Put  bool
	Obj  interface{}
	Task string
}

// PoolLog is the per-execution log of pool operations (harness oracles read it).
var PoolLog []PoolEvent

// PoolLogging enables PoolLog.
var PoolLogging bool

func (p *Pool) Get() (x interface{}) {
	if vs.W == nil {
		if p.New != nil && p.real.New == nil {
			p.real.New = p.New
		}
		return p.real.Get()
	}
	vs.BlockOn(unsafe.Pointer(p), "pool.Get", nil, func() {
		if n := len(p.items); n > 0 {
			x = p.items[n-1]
			p.items[n-1] = nil
			p.items = p.items[:n-1]
		}
		if PoolLogging {
			PoolLog = append(PoolLog, PoolEvent{p, false, x, vs.W.Cur().Name})
		}
	})
	if x == nil && p.New != nil {
		x = p.New()
	}
	return x
}

func (p *Pool) Put(x interface{}) {
	if vs.W == nil {
		p.real.Put(x)
		return
	}
	if x == nil {
		return
	}
	vs.BlockOn(unsafe.Pointer(p), "pool.Put", nil, func() {
		if !p.reg {
			p.reg = true
			allPools = append(allPools, p)
		}
		p.items = append(p.items, x)
		if PoolLogging {
			PoolLog = append(PoolLog, PoolEvent{p, true, x, vs.W.Cur().Name})
		}
	})
}

// OnceFunc, OnceValue and OnceValues mirror the Go 1.21 helpers on top of the
// shim's Once (panic re-raising on later calls is not modelled).
func OnceFunc(f func()) func() {
	var o Once
	return func() { o.Do(f) }
}

func OnceValue[T any](f func() T) func() T {
	var o Once
	var v T
	return func() T {
		o.Do(func() { v = f() })
		return v
	}
}

func OnceValues[T1, T2 any](f func() (T1, T2)) func() (T1, T2) {
	var o Once
	var v1 T1
	var v2 T2
	return func() (T1, T2) {
		o.Do(func() { v1, v2 = f() })
		return v1, v2
	}
}
