// Package vtime replaces "time" in the instrumented build: a virtual clock
// under the scheduler, the real package otherwise.
package vtime

import (
	"time"
	"unsafe"

	"verif/engine/vctx"
	"verif/engine/vs"
)

type Duration = time.Duration
type Time = time.Time
type Month = time.Month
type Weekday = time.Weekday
type Location = time.Location

const (
	Nanosecond  = time.Nanosecond
	Microsecond = time.Microsecond
	Millisecond = time.Millisecond
	Second      = time.Second
	Minute      = time.Minute
	Hour        = time.Hour
	RFC3339     = time.RFC3339

	Layout      = time.Layout
	ANSIC       = time.ANSIC
	UnixDate    = time.UnixDate
	RubyDate    = time.RubyDate
	RFC822      = time.RFC822
	RFC822Z     = time.RFC822Z
	RFC850      = time.RFC850
	RFC1123     = time.RFC1123
	RFC1123Z    = time.RFC1123Z
	RFC3339Nano = time.RFC3339Nano
	Kitchen     = time.Kitchen
	Stamp       = time.Stamp
	StampMilli  = time.StampMilli
	StampMicro  = time.StampMicro
	StampNano   = time.StampNano
	DateTime    = time.DateTime
	DateOnly    = time.DateOnly
	TimeOnly    = time.TimeOnly

	January   = time.January
	February  = time.February
	March     = time.March
	April     = time.April
	May       = time.May
	June      = time.June
	July      = time.July
	August    = time.August
	September = time.September
	October   = time.October
	November  = time.November
	December  = time.December

	Sunday    = time.Sunday
	Monday    = time.Monday
	Tuesday   = time.Tuesday
	Wednesday = time.Wednesday
	Thursday  = time.Thursday
	Friday    = time.Friday
	Saturday  = time.Saturday
)

type ParseError = time.ParseError

var UTC = time.UTC
var Local = time.Local

// pure functions of the real package
var (
	Date                   = time.Date
	FixedZone              = time.FixedZone
	LoadLocation           = time.LoadLocation
	LoadLocationFromTZData = time.LoadLocationFromTZData
	Parse                  = time.Parse
	ParseDuration          = time.ParseDuration
	ParseInLocation        = time.ParseInLocation
	UnixMicro              = time.UnixMicro
	UnixMilli              = time.UnixMilli
)

// Tick mirrors time.Tick.
func Tick(d Duration) <-chan Time {
	if d <= 0 {
		return nil
	}
	return NewTicker(d).C
}

func Unix(sec, nsec int64) Time { return time.Unix(sec, nsec) }

func Now() Time {
	w := vs.W
	if w == nil {
		return time.Now()
	}
	w.SilentEvent([]unsafe.Pointer{vs.ClockObj()}, nil)
	return vctx.Epoch.Add(time.Duration(w.Now))
}
func Until(t Time) Duration {
	if vs.W == nil {
		return time.Until(t)
	}
	return t.Sub(Now())
}
func Since(t Time) Duration {
	if vs.W == nil {
		return time.Since(t)
	}
	return Now().Sub(t)
}

// Timer mirrors time.Timer.
type Timer struct {
	C     <-chan Time
	c     chan Time
	f     func()
	real  *time.Timer
	h     vs.TimerHandle
	nfire int
}

func NewTimer(d Duration) *Timer {
	if vs.W == nil {
		rt := time.NewTimer(d)
		return &Timer{C: rt.C, real: rt}
	}
	c := make(chan Time, 1)
	t := &Timer{C: c, c: c}
	t.arm(d)
	return t
}

func AfterFunc(d Duration, f func()) *Timer {
	if vs.W == nil {
		return &Timer{real: time.AfterFunc(d, f)}
	}
	t := &Timer{f: f}
	t.arm(d)
	return t
}

func After(d Duration) <-chan Time { return NewTimer(d).C }

func Sleep(d Duration) {
	if vs.W == nil {
		time.Sleep(d)
		return
	}
	t := NewTimer(d)
	vs.Recv(t.C)
}

func (t *Timer) arm(d Duration) {
	w := vs.W
	t.h = w.AddTimer(int64(d), func() {
		if t.f != nil {
			t.nfire++
			w.ClockGo("afterfunc", true, t.h.Path()+uint64(t.nfire)*977, t.f)
			return
		}
		w.ClockTouch(vs.ChanObj(t.c))
		select {
		case t.c <- vctx.Epoch.Add(time.Duration(w.Now)):
		default:
		}
	})
}

// Stop is a visible operation: its result races with the firing.
func (t *Timer) Stop() (was bool) {
	if t.real != nil {
		return t.real.Stop()
	}
	if vs.W == nil {
		return false
	}
	vs.BlockOn(t.h.Obj(), "timer.Stop", nil, func() { was = t.h.Stop() })
	return was
}

func (t *Timer) Reset(d Duration) (was bool) {
	if t.real != nil {
		return t.real.Reset(d)
	}
	if vs.W == nil {
		return false
	}
	vs.BlockOn(t.h.Obj(), "timer.Reset", nil, func() { was = t.h.Stop() })
	t.arm(d)
	return was
}

// Ticker: minimal support (not used by the library today).
type Ticker struct {
	C    <-chan Time
	real *time.Ticker
	stop bool
}

func NewTicker(d Duration) *Ticker {
	if vs.W == nil {
		rt := time.NewTicker(d)
		return &Ticker{C: rt.C, real: rt}
	}
	c := make(chan Time, 1)
	tk := &Ticker{C: c}
	w := vs.W
	var arm func()
	arm = func() {
		w.AddTimer(int64(d), func() {
			if tk.stop {
				return
			}
			w.ClockTouch(vs.ChanObj(c))
			select {
			case c <- vctx.Epoch.Add(time.Duration(w.Now)):
			default:
			}
			arm()
		})
	}
	arm()
	return tk
}

func (tk *Ticker) Stop() {
	if tk.real != nil {
		tk.real.Stop()
		return
	}
	tk.stop = true
}
