// Package fw is the small framework shared by the worker binaries (seqw, schedw)
// and the driver (vcheck): registration of check parts, the per-unit result
// record, and the worker command line.
package fw

import (
	"encoding/json"
	"flag"
	"fmt"
	"hash/fnv"
	"os"
	"runtime/debug"
	"sort"
	"strings"
	"time"
)

// Violation is one failed oracle rule on one case.
type Violation struct {
	Property string          `json:"property"`
	Class    string          `json:"class"`  // stable class: rule + abstract locus, used to match known findings
	Detail   string          `json:"detail"` // human readable: expected vs observed
	Unit     string          `json:"unit"`
	Replay   json.RawMessage `json:"replay,omitempty"` // data the part's Replay function understands
}

// Result is what one unit run reports.
type Result struct {
	Unit           string                 `json:"unit"`
	Property       string                 `json:"property"`
	Evaluations    int64                  `json:"evaluations"`
	States         int64                  `json:"states"`
	Transitions    int64                  `json:"transitions"`
	Traces         int64                  `json:"traces"`
	Outcomes       []uint64               `json:"outcomes"`
	OutcomesCapped bool                   `json:"outcomes_capped,omitempty"`
	Violations     []Violation            `json:"violations,omitempty"`
	ViolationCount map[string]int64       `json:"violation_count,omitempty"`
	Samples        []interface{}          `json:"samples,omitempty"`
	Exhaustive     bool                   `json:"exhaustive"`
	Notes          []string               `json:"notes,omitempty"`
	Bounds         map[string]interface{} `json:"bounds,omitempty"`
	WallS          float64                `json:"wall_s"`
	EngineError    string                 `json:"engine_error,omitempty"`
}

// Ctx is handed to a unit's Run function.
type Ctx struct {
	// Reprefix: violation classes are reported under the context's own property (parts that
	// run another property's case code for their own clause)
	Reprefix bool
	Tier     string
	Seed     int64
	Unit     string
	Property string
	Deadline time.Time
	res      *Result
	outcomes map[uint64]struct{}
	perClass map[string]int
}

const maxOutcomes = 200000
const maxViolationsPerClass = 2
const maxSamples = 3

// EvalHook, if set, runs every 1024th evaluation of a unit (the sequential worker collects
// garbage there, and nowhere else: see cmd/seqw).
var EvalHook func()

func (c *Ctx) Eval() {
	c.res.Evaluations++
	if EvalHook != nil && c.res.Evaluations&1023 == 0 {
		EvalHook()
	}
}
func (c *Ctx) AddEval(n int64)        { c.res.Evaluations += n }
func (c *Ctx) AddStates(n int64)      { c.res.States += n }
func (c *Ctx) AddTransitions(n int64) { c.res.Transitions += n }
func (c *Ctx) AddTraces(n int64)      { c.res.Traces += n }

// Outcome records one distinct, non-trivial observable outcome (by hash).
func (c *Ctx) Outcome(h uint64) {
	if len(c.outcomes) >= maxOutcomes {
		c.res.OutcomesCapped = true
		return
	}
	c.outcomes[h] = struct{}{}
}

// OutcomeStr hashes s and records it.
func (c *Ctx) OutcomeStr(s string) { c.Outcome(HashStr(s)) }

func HashStr(s string) uint64 {
	h := fnv.New64a()
	h.Write([]byte(s))
	return h.Sum64()
}

func HashBytes(b []byte) uint64 {
	h := fnv.New64a()
	h.Write(b)
	return h.Sum64()
}

// Violate records a violation of the unit's property.
func (c *Ctx) Violate(class, detail string, replay interface{}) {
	if c.Reprefix {
		// a part that re-uses another property's case code reports under its own property
		own := strings.TrimSuffix(c.Property, "R")
		if i := strings.Index(class, "/"); i > 0 && class[:i] != own {
			class = own + class[i:]
		}
	}
	if c.res.ViolationCount == nil {
		c.res.ViolationCount = map[string]int64{}
	}
	c.res.ViolationCount[class]++
	if c.perClass[class] >= maxViolationsPerClass {
		return
	}
	c.perClass[class]++
	var raw json.RawMessage
	if replay != nil {
		raw, _ = json.Marshal(replay)
	}
	if len(detail) > 2000 {
		detail = detail[:2000] + "…"
	}
	c.res.Violations = append(c.res.Violations, Violation{Property: c.Property, Class: class, Detail: detail, Unit: c.Unit, Replay: raw})
}

// Sample keeps a few explored cases, written out, for the evidence file.
func (c *Ctx) Sample(v interface{}) {
	if len(c.res.Samples) < maxSamples {
		c.res.Samples = append(c.res.Samples, v)
	}
}

func (c *Ctx) WantSample() bool { return len(c.res.Samples) < maxSamples }

// NotExhaustive marks the unit as not having completed its stated finite space.
func (c *Ctx) NotExhaustive(reason string) {
	c.res.Exhaustive = false
	c.Note(reason)
}

func (c *Ctx) Note(s string) {
	for _, n := range c.res.Notes {
		if n == s {
			return
		}
	}
	c.res.Notes = append(c.res.Notes, s)
}

func (c *Ctx) Bound(k string, v interface{}) {
	if c.res.Bounds == nil {
		c.res.Bounds = map[string]interface{}{}
	}
	c.res.Bounds[k] = v
}

// EngineError reports a problem of the machinery itself (never a violation).
func (c *Ctx) EngineError(s string) {
	if c.res.EngineError == "" {
		c.res.EngineError = s
	}
}

// OutOfTime tells long enumerations to stop (the unit is then not exhaustive).
func (c *Ctx) OutOfTime() bool {
	return !c.Deadline.IsZero() && time.Now().After(c.Deadline)
}

func (c *Ctx) Thorough() bool { return c.Tier == "thorough" }

// Unit is one schedulable piece of a check.
type Unit struct {
	ID  string
	Run func(c *Ctx)
}

// Part is a family of units of one property, with a replay function.
type Part struct {
	Prop   string
	Name   string
	Units  func(tier string) []Unit
	Replay func(c *Ctx, data json.RawMessage)
}

var parts []Part

func Register(p Part) { parts = append(parts, p) }

// Shards is a helper: n units named base#i/n, each running run(c, i, n).
func Shards(base string, n int, run func(c *Ctx, shard, nshards int)) []Unit {
	var us []Unit
	for i := 0; i < n; i++ {
		i := i
		us = append(us, Unit{ID: fmt.Sprintf("%s#%d/%d", base, i, n), Run: func(c *Ctx) { run(c, i, n) }})
	}
	return us
}

func allUnits(prop, tier string) map[string]Unit {
	m := map[string]Unit{}
	for _, p := range parts {
		if p.Prop != prop || p.Units == nil {
			continue
		}
		for _, u := range p.Units(tier) {
			id := p.Prop + "/" + p.Name + "/" + u.ID
			if _, dup := m[id]; dup {
				panic("duplicate unit id " + id)
			}
			u.ID = id
			m[id] = u
		}
	}
	return m
}

func newCtx(prop, unit, tier string, seed int64, budget time.Duration) *Ctx {
	c := &Ctx{Tier: tier, Seed: seed, Unit: unit, Property: prop, outcomes: map[uint64]struct{}{}, perClass: map[string]int{}}
	c.res = &Result{Unit: unit, Property: prop, Exhaustive: true}
	if budget > 0 {
		c.Deadline = time.Now().Add(budget)
	}
	return c
}

func (c *Ctx) finish(start time.Time) *Result {
	for h := range c.outcomes {
		c.res.Outcomes = append(c.res.Outcomes, h)
	}
	sort.Slice(c.res.Outcomes, func(i, j int) bool { return c.res.Outcomes[i] < c.res.Outcomes[j] })
	c.res.WallS = time.Since(start).Seconds()
	return c.res
}

// Main implements the worker command line:
//
//	worker list   -prop C03 -tier quick
//	worker run    -prop C03 -tier quick -unit <id> -seed N -budget 60s -out file
//	worker replay -prop C03 -part <name> -file replay.json
//
// DebugHook, when set, runs instead of the normal command line (development aid).
var DebugHook func()

// NewDebugCtx returns a throw-away context.
func NewDebugCtx(prop string) *Ctx { return newCtx(prop, "debug", "quick", 1, 0) }

func Main() {
	if DebugHook != nil {
		DebugHook()
		return
	}
	if len(os.Args) < 2 {
		fmt.Fprintln(os.Stderr, "usage: worker list|run|replay ...")
		os.Exit(2)
	}
	cmd := os.Args[1]
	fs := flag.NewFlagSet(cmd, flag.ExitOnError)
	prop := fs.String("prop", "", "property id")
	tier := fs.String("tier", "quick", "quick|thorough")
	unit := fs.String("unit", "", "unit id")
	seed := fs.Int64("seed", 1, "seed")
	out := fs.String("out", "", "result file")
	budget := fs.Duration("budget", 0, "wall budget for this unit (0 = none)")
	file := fs.String("file", "", "replay file")
	fs.Parse(os.Args[2:])
	switch cmd {
	case "list":
		var ids []string
		for id := range allUnits(*prop, *tier) {
			ids = append(ids, id)
		}
		sort.Strings(ids)
		json.NewEncoder(os.Stdout).Encode(ids)
	case "run":
		us := allUnits(*prop, *tier)
		u, ok := us[*unit]
		if !ok {
			fmt.Fprintln(os.Stderr, "unknown unit", *unit)
			os.Exit(2)
		}
		c := newCtx(*prop, *unit, *tier, *seed, *budget)
		start := time.Now()
		u.Run(c)
		res := c.finish(start)
		b, _ := json.Marshal(res)
		if *out == "" {
			os.Stdout.Write(b)
			fmt.Println()
		} else if err := os.WriteFile(*out, b, 0o644); err != nil {
			fmt.Fprintln(os.Stderr, err)
			os.Exit(2)
		}
	case "replay":
		b, err := os.ReadFile(*file)
		if err != nil {
			fmt.Fprintln(os.Stderr, err)
			os.Exit(2)
		}
		var v Violation
		if err := json.Unmarshal(b, &v); err != nil {
			fmt.Fprintln(os.Stderr, err)
			os.Exit(2)
		}
		// unit id = prop/part/...
		segs := strings.SplitN(v.Unit, "/", 3)
		for _, p := range parts {
			if len(segs) >= 2 && p.Prop == segs[0] && p.Name == segs[1] && p.Replay != nil {
				c := newCtx(p.Prop, v.Unit, *tier, *seed, 0)
				start := time.Now()
				p.Replay(c, v.Replay)
				res := c.finish(start)
				if len(res.Violations) > 0 {
					for _, vv := range res.Violations {
						fmt.Printf("REPRODUCED class=%s\n  %s\n", vv.Class, vv.Detail)
					}
					os.Exit(1)
				}
				fmt.Println("not reproduced (no violation on this tree)")
				os.Exit(0)
			}
		}
		fmt.Fprintln(os.Stderr, "no replay function for", v.Unit)
		os.Exit(2)
	default:
		fmt.Fprintln(os.Stderr, "unknown command", cmd)
		os.Exit(2)
	}
}

// Recover runs f and converts a panic into a string (with stack) so oracles can
// report "panic" as a violation instead of crashing the worker.
func Recover(f func()) (panicked string) {
	defer func() {
		if r := recover(); r != nil {
			panicked = fmt.Sprintf("%v\n%s", r, debug.Stack())
		}
	}()
	f()
	return ""
}
