module verif

go 1.21

require nhooyr.io/websocket v0.0.0

replace nhooyr.io/websocket => /repo
