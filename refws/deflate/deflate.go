// Package deflate is an independent RFC 7692 permessage-deflate sender and
// receiver used as oracle. It trusts compress/flate and nothing of the library.
package deflate

import (
	"bytes"
	"compress/flate"
	"fmt"
	"io"
)

const window = 32768

// Inflater is a permessage-deflate receiver.
type Inflater struct {
	NoContextTakeover bool // the sender resets its context after every message
	hist              []byte
}

// Message inflates one message payload (concatenated fragments, tail removed).
func (r *Inflater) Message(payload []byte) ([]byte, error) {
	data := make([]byte, 0, len(payload)+9)
	data = append(data, payload...)
	data = append(data, 0x00, 0x00, 0xff, 0xff)       // the tail the sender removed
	data = append(data, 0x01, 0x00, 0x00, 0xff, 0xff) // final empty block so the reader ends cleanly
	var dict []byte
	if !r.NoContextTakeover {
		dict = r.hist
	}
	fr := flate.NewReaderDict(bytes.NewReader(data), dict)
	out, err := io.ReadAll(fr)
	if err != nil {
		return out, fmt.Errorf("inflate: %w", err)
	}
	if !r.NoContextTakeover {
		r.hist = append(r.hist, out...)
		if len(r.hist) > window {
			r.hist = append([]byte(nil), r.hist[len(r.hist)-window:]...)
		}
	}
	return out, nil
}

// Deflater is a permessage-deflate sender.
type Deflater struct {
	NoContextTakeover bool
	Level             int // 0 = flate.BestCompression (BestSpeed never references history for inputs under 128 bytes)
	w                 *flate.Writer
	buf               bytes.Buffer
	hist              []byte // last 32 KiB of plaintext sent (context takeover only)
}

func (d *Deflater) level() int {
	if d.Level == 0 {
		return flate.BestCompression
	}
	return d.Level
}

func (d *Deflater) writer() *flate.Writer {
	if d.w == nil || d.NoContextTakeover {
		if !d.NoContextTakeover && len(d.hist) > 0 {
			// the stream was ended by a final block: continue with a new stream
			// whose window is primed with the plaintext sent so far
			d.w, _ = flate.NewWriterDict(&d.buf, d.level(), d.hist)
		} else {
			d.w, _ = flate.NewWriter(&d.buf, d.level())
		}
	}
	return d.w
}

func (d *Deflater) remember(msg []byte) {
	if d.NoContextTakeover {
		return
	}
	d.hist = append(d.hist, msg...)
	if len(d.hist) > window {
		d.hist = append([]byte(nil), d.hist[len(d.hist)-window:]...)
	}
}

// Message compresses one message the usual way (sync flush, tail removed).
func (d *Deflater) Message(msg []byte) []byte {
	d.buf.Reset()
	w := d.writer()
	w.Write(msg)
	w.Flush()
	d.remember(msg)
	out := d.buf.Bytes()
	if len(out) >= 4 && bytes.Equal(out[len(out)-4:], []byte{0, 0, 0xff, 0xff}) {
		out = out[:len(out)-4]
	}
	return append([]byte(nil), out...)
}

// MessageBFinal compresses one message ending with a BFINAL=1 block followed by
// 0x00 (RFC 7692 section 7.2.3.4). A DEFLATE stream cannot continue after a
// final block; under context takeover the LZ77 window does (the message is
// compressed against the plaintext sent so far and later messages may refer
// back to it), which a new stream primed with that plaintext reproduces.
func (d *Deflater) MessageBFinal(msg []byte) []byte {
	d.buf.Reset()
	var w *flate.Writer
	if !d.NoContextTakeover && len(d.hist) > 0 {
		w, _ = flate.NewWriterDict(&d.buf, d.level(), d.hist)
	} else {
		w, _ = flate.NewWriter(&d.buf, d.level())
	}
	w.Write(msg)
	w.Close()
	d.w = nil
	d.remember(msg)
	out := append([]byte(nil), d.buf.Bytes()...)
	return append(out, 0x00)
}
