// Package deflate is an independent RFC 7692 permessage-deflate sender and
// receiver used as oracle. It trusts compress/flate and nothing of the library.
package deflate

import (
	"bytes"
	"compress/flate"
	"fmt"
	"io"
)

const window = 32768

// Inflater is a permessage-deflate receiver.
type Inflater struct {
	NoContextTakeover bool // the sender resets its context after every message
	hist              []byte
}

// Message inflates one message payload (concatenated fragments, tail removed).
func (r *Inflater) Message(payload []byte) ([]byte, error) {
	data := make([]byte, 0, len(payload)+9)
	data = append(data, payload...)
	data = append(data, 0x00, 0x00, 0xff, 0xff)       // the tail the sender removed
	data = append(data, 0x01, 0x00, 0x00, 0xff, 0xff) // final empty block so the reader ends cleanly
	var dict []byte
	if !r.NoContextTakeover {
		dict = r.hist
	}
	fr := flate.NewReaderDict(bytes.NewReader(data), dict)
	out, err := io.ReadAll(fr)
	if err != nil {
		return out, fmt.Errorf("inflate: %w", err)
	}
	if !r.NoContextTakeover {
		r.hist = append(r.hist, out...)
		if len(r.hist) > window {
			r.hist = append([]byte(nil), r.hist[len(r.hist)-window:]...)
		}
	}
	return out, nil
}

// Deflater is a permessage-deflate sender.
type Deflater struct {
	NoContextTakeover bool
	Level             int // 0 = flate.BestCompression (BestSpeed never references history for inputs under 128 bytes)
	w                 *flate.Writer
	buf               bytes.Buffer
}

func (d *Deflater) writer() *flate.Writer {
	if d.w == nil || d.NoContextTakeover {
		lvl := d.Level
		if lvl == 0 {
			lvl = flate.BestCompression
		}
		d.w, _ = flate.NewWriter(&d.buf, lvl)
	}
	return d.w
}

// Message compresses one message the usual way (sync flush, tail removed).
func (d *Deflater) Message(msg []byte) []byte {
	d.buf.Reset()
	w := d.writer()
	w.Write(msg)
	w.Flush()
	out := d.buf.Bytes()
	if len(out) >= 4 && bytes.Equal(out[len(out)-4:], []byte{0, 0, 0xff, 0xff}) {
		out = out[:len(out)-4]
	}
	return append([]byte(nil), out...)
}

// MessageBFinal compresses one message ending with a BFINAL=1 block followed by
// 0x00 (RFC 7692 section 7.2.3.4). The deflate context cannot continue after a
// final block, so the next message starts a new stream (with the old history
// gone), which is only legal to mix with context takeover if the receiver
// resets too; callers use it with NoContextTakeover.
func (d *Deflater) MessageBFinal(msg []byte) []byte {
	d.buf.Reset()
	lvl := d.Level
	if lvl == 0 {
		lvl = flate.BestCompression
	}
	w, _ := flate.NewWriter(&d.buf, lvl)
	w.Write(msg)
	w.Close()
	d.w = nil
	out := append([]byte(nil), d.buf.Bytes()...)
	return append(out, 0x00)
}
