package deflate

import (
	"bytes"
	"testing"
)

func TestRoundTrip(t *testing.T) {
	for _, nct := range []bool{false, true} {
		d := &Deflater{NoContextTakeover: nct}
		r := &Inflater{NoContextTakeover: nct}
		msgs := [][]byte{bytes.Repeat([]byte("hello world "), 300), []byte("hello world hello"), {}, bytes.Repeat([]byte{7}, 70000), []byte("hello world x")}
		for i, m := range msgs {
			got, err := r.Message(d.Message(m))
			if err != nil || !bytes.Equal(got, m) {
				t.Fatalf("nct=%v msg %d: err=%v len got %d want %d", nct, i, err, len(got), len(m))
			}
		}
		got, err := (&Inflater{NoContextTakeover: true}).Message((&Deflater{}).MessageBFinal([]byte("Hello")))
		if err != nil || string(got) != "Hello" {
			t.Fatalf("bfinal: %v %q", err, got)
		}
	}
}
