// Package frame is an independent RFC 6455 section 5.2 frame codec used as
// oracle: an encoder that can also produce deliberately malformed frames, a
// lenient parser (structure only) and a strict stream validator.
// It does not import the library under test.
package frame

import (
	"encoding/binary"
	"errors"
	"fmt"
)

const (
	OpCont   = 0
	OpText   = 1
	OpBinary = 2
	OpClose  = 8
	OpPing   = 9
	OpPong   = 10
)

// Frame is one WebSocket frame. Payload is always the unmasked payload.
type Frame struct {
	Fin, Rsv1, Rsv2, Rsv3 bool
	Opcode                byte
	Masked                bool
	Key                   [4]byte
	Payload               []byte

	// encoding controls (zero values = well-formed minimal encoding)
	LenClass    int    // 0 minimal, 1 force 16-bit, 2 force 64-bit
	DeclaredLen uint64 // if non-zero, the length field holds this value instead of len(Payload)
	HasDeclared bool

	// decoding results
	HeaderLen  int
	LenMinimal bool
	Offset     int // offset of the frame in the decoded stream
}

func (f Frame) IsControl() bool { return f.Opcode >= 8 }

func (f Frame) String() string {
	p := f.Payload
	suffix := ""
	if len(p) > 12 {
		p = p[:12]
		suffix = "…"
	}
	return fmt.Sprintf("{fin=%v rsv=%v%v%v op=%d masked=%v len=%d %x%s}", f.Fin, b2i(f.Rsv1), b2i(f.Rsv2), b2i(f.Rsv3), f.Opcode, f.Masked, len(f.Payload), p, suffix)
}

func b2i(b bool) int {
	if b {
		return 1
	}
	return 0
}

// Encode appends the wire form of f to dst.
func (f Frame) Encode(dst []byte) []byte {
	b0 := f.Opcode & 0x0f
	if f.Fin {
		b0 |= 0x80
	}
	if f.Rsv1 {
		b0 |= 0x40
	}
	if f.Rsv2 {
		b0 |= 0x20
	}
	if f.Rsv3 {
		b0 |= 0x10
	}
	dst = append(dst, b0)
	n := uint64(len(f.Payload))
	if f.HasDeclared {
		n = f.DeclaredLen
	}
	var mb byte
	if f.Masked {
		mb = 0x80
	}
	class := f.LenClass
	if class == 0 {
		switch {
		case n <= 125:
			class = -1
		case n <= 65535:
			class = 1
		default:
			class = 2
		}
	}
	switch class {
	case -1:
		dst = append(dst, mb|byte(n))
	case 1:
		dst = append(dst, mb|126, byte(n>>8), byte(n))
	case 2:
		var l [8]byte
		binary.BigEndian.PutUint64(l[:], n)
		dst = append(dst, mb|127)
		dst = append(dst, l[:]...)
	}
	if f.Masked {
		dst = append(dst, f.Key[:]...)
		start := len(dst)
		dst = append(dst, f.Payload...)
		for i := range dst[start:] {
			dst[start+i] ^= f.Key[i%4]
		}
	} else {
		dst = append(dst, f.Payload...)
	}
	return dst
}

// ErrShort means the buffer ends inside a frame.
var ErrShort = errors.New("frame: truncated")

// Parse decodes one frame from the front of b (structure only, no policy).
// It returns ErrShort if b ends inside the frame.
func Parse(b []byte) (f Frame, n int, err error) {
	if len(b) < 2 {
		return f, 0, ErrShort
	}
	f.Fin = b[0]&0x80 != 0
	f.Rsv1 = b[0]&0x40 != 0
	f.Rsv2 = b[0]&0x20 != 0
	f.Rsv3 = b[0]&0x10 != 0
	f.Opcode = b[0] & 0x0f
	f.Masked = b[1]&0x80 != 0
	l := uint64(b[1] & 0x7f)
	pos := 2
	f.LenMinimal = true
	switch l {
	case 126:
		if len(b) < 4 {
			return f, 0, ErrShort
		}
		l = uint64(binary.BigEndian.Uint16(b[2:]))
		pos = 4
		f.LenClass = 1
		f.LenMinimal = l > 125
	case 127:
		if len(b) < 10 {
			return f, 0, ErrShort
		}
		l = binary.BigEndian.Uint64(b[2:])
		pos = 10
		f.LenClass = 2
		f.LenMinimal = l > 65535
	}
	f.DeclaredLen = l
	if f.Masked {
		if len(b) < pos+4 {
			return f, 0, ErrShort
		}
		copy(f.Key[:], b[pos:])
		pos += 4
	}
	f.HeaderLen = pos
	if l > uint64(len(b)-pos) {
		return f, 0, ErrShort
	}
	f.Payload = append([]byte(nil), b[pos:pos+int(l)]...)
	if f.Masked {
		for i := range f.Payload {
			f.Payload[i] ^= f.Key[i%4]
		}
	}
	return f, pos + int(l), nil
}

// ParseAll decodes as many complete frames as b holds; rest is the truncated tail.
func ParseAll(b []byte) (frames []Frame, rest []byte) {
	off := 0
	for {
		f, n, err := Parse(b[off:])
		if err != nil {
			return frames, b[off:]
		}
		f.Offset = off
		frames = append(frames, f)
		off += n
	}
}

// Message is a reassembled data message.
type Message struct {
	Opcode     byte // OpText / OpBinary
	Compressed bool // RSV1 on the first frame
	Payload    []byte
	Frames     int
}

// StreamRules configures Validate.
type StreamRules struct {
	SenderIsClient bool // frames must be masked iff true
	Deflate        bool // RSV1 allowed on the first frame of a message
}

// Violation of the emitted-stream rules of the properties C02/C05/C16.
type Violation struct {
	Rule  string
	Frame int
	Msg   string
}

func (v Violation) Error() string { return fmt.Sprintf("%s at frame %d: %s", v.Rule, v.Frame, v.Msg) }

// Result of validating an emitted stream.
type Result struct {
	Frames     []Frame
	Messages   []Message // complete data messages in order
	Controls   []Frame   // control frames in order
	Rest       []byte    // truncated tail
	InMessage  bool      // stream ends inside a fragmented message
	FirstClose int       // index in Frames of the first Close frame, -1 if none
	Violations []Violation
}

// ValidCloseCode reports whether a status code may appear in a Close frame.
func ValidCloseCode(code int) bool {
	switch {
	case code >= 1000 && code <= 1014:
		return code != 1004 && code != 1005 && code != 1006
	case code >= 3000 && code <= 4999:
		return true
	}
	return false
}

// Validate checks every emitted-stream rule of RFC 6455 named in the properties.
func Validate(b []byte, rules StreamRules) Result {
	var r Result
	r.FirstClose = -1
	r.Frames, r.Rest = ParseAll(b)
	var cur *Message
	add := func(rule string, i int, format string, a ...interface{}) {
		r.Violations = append(r.Violations, Violation{rule, i, fmt.Sprintf(format, a...)})
	}
	var lastKey [4]byte
	haveKey := false
	for i, f := range r.Frames {
		if f.Masked != rules.SenderIsClient {
			add("masking", i, "masked=%v but sender is client=%v", f.Masked, rules.SenderIsClient)
		}
		if f.Masked {
			if haveKey && f.Key == lastKey {
				add("mask-key-reuse", i, "same masking key %x as the previous frame", f.Key)
			}
			lastKey, haveKey = f.Key, true
		}
		if !f.LenMinimal {
			add("length-not-minimal", i, "length %d encoded in class %d", len(f.Payload), f.LenClass)
		}
		if f.Rsv2 || f.Rsv3 {
			add("rsv23", i, "RSV2/RSV3 set")
		}
		switch f.Opcode {
		case OpClose, OpPing, OpPong:
			if !f.Fin {
				add("control-fragmented", i, "control frame without FIN")
			}
			if len(f.Payload) > 125 {
				add("control-too-long", i, "control payload %d bytes", len(f.Payload))
			}
			if f.Rsv1 {
				add("rsv1-on-control", i, "RSV1 on control frame")
			}
			if f.Opcode == OpClose {
				if r.FirstClose < 0 {
					r.FirstClose = i
				}
				if len(f.Payload) == 1 {
					add("close-payload", i, "1-byte close payload")
				}
				if len(f.Payload) >= 2 {
					code := int(binary.BigEndian.Uint16(f.Payload))
					if !ValidCloseCode(code) {
						add("close-code", i, "close code %d may not be sent", code)
					}
					if len(f.Payload)-2 > 123 {
						add("close-reason", i, "reason %d bytes", len(f.Payload)-2)
					}
				}
			}
			r.Controls = append(r.Controls, f)
		case OpText, OpBinary:
			if cur != nil {
				add("fragment-grammar", i, "new data message while a fragmented message is open")
			}
			if f.Rsv1 && !rules.Deflate {
				add("rsv1-not-negotiated", i, "RSV1 without permessage-deflate")
			}
			cur = &Message{Opcode: f.Opcode, Compressed: f.Rsv1, Payload: append([]byte(nil), f.Payload...), Frames: 1}
			if f.Fin {
				r.Messages = append(r.Messages, *cur)
				cur = nil
			}
		case OpCont:
			if f.Rsv1 {
				add("rsv1-on-continuation", i, "RSV1 on continuation frame")
			}
			if cur == nil {
				add("fragment-grammar", i, "continuation without an open message")
				continue
			}
			cur.Payload = append(cur.Payload, f.Payload...)
			cur.Frames++
			if f.Fin {
				r.Messages = append(r.Messages, *cur)
				cur = nil
			}
		default:
			add("opcode", i, "reserved opcode %d", f.Opcode)
		}
	}
	r.InMessage = cur != nil
	return r
}

// ClosePayload builds a Close frame payload.
func ClosePayload(code int, reason string) []byte {
	p := make([]byte, 2+len(reason))
	binary.BigEndian.PutUint16(p, uint16(code))
	copy(p[2:], reason)
	return p
}

// Ctl builds a final control frame.
func Ctl(op byte, masked bool, payload []byte) Frame {
	return Frame{Fin: true, Opcode: op, Masked: masked, Key: [4]byte{0x11, 0x22, 0x33, 0x44}, Payload: payload}
}

// Data builds a data frame.
func Data(op byte, fin, masked bool, payload []byte) Frame {
	return Frame{Fin: fin, Opcode: op, Masked: masked, Key: [4]byte{0xA5, 0x5A, 0x3C, 0xC3}, Payload: payload}
}
