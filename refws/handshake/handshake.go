// Package handshake is the reference model of the server side of the WebSocket
// opening handshake used by the C11 and C12 oracles. It is written from the
// property texts and RFC 6455 section 4 / RFC 7230 section 7, not from the
// library, and does not import it. It also does not use net/url: the host an
// Origin value names is known to the caller by construction.
package handshake

import (
	"crypto/sha1"
	"encoding/base64"
	"strings"
)

// GUID is the constant of RFC 6455 section 1.3.
const GUID = "258EAFA5-E914-47DA-95CA-C5AB0DC85B11"

// AcceptKey is base64(SHA-1(key + GUID)) over the key exactly as given.
func AcceptKey(key string) string {
	sum := sha1.Sum([]byte(key + GUID))
	return base64.StdEncoding.EncodeToString(sum[:])
}

func trimOWS(s string) string {
	for len(s) > 0 && (s[0] == ' ' || s[0] == '\t') {
		s = s[1:]
	}
	for len(s) > 0 && (s[len(s)-1] == ' ' || s[len(s)-1] == '\t') {
		s = s[:len(s)-1]
	}
	return s
}

// Tokens returns the elements of an RFC 7230 "#token" list spread over any
// number of header lines: split at commas, optional white space removed, empty
// elements dropped.
func Tokens(lines []string) []string {
	var out []string
	for _, l := range lines {
		for len(l) > 0 {
			i := strings.IndexByte(l, ',')
			var el string
			if i < 0 {
				el, l = l, ""
			} else {
				el, l = l[:i], l[i+1:]
			}
			if el = trimOWS(el); el != "" {
				out = append(out, el)
			}
		}
	}
	return out
}

func asciiLower(s string) string {
	b := []byte(s)
	for i, c := range b {
		if 'A' <= c && c <= 'Z' {
			b[i] = c + 'a' - 'A'
		}
	}
	return string(b)
}

// HasToken reports whether the token list contains tok, ASCII case-insensitively.
func HasToken(lines []string, tok string) bool {
	want := asciiLower(tok)
	for _, t := range Tokens(lines) {
		if asciiLower(t) == want {
			return true
		}
	}
	return false
}

// Request is the part of a client request C11 speaks about. Every header is the
// list of its header lines in order; nil means the header is absent.
type Request struct {
	Method       string
	Major, Minor int
	Connection   []string
	Upgrade      []string
	Version      []string
	Key          []string
}

// Names of the clauses of the C11 predicate, in the order of the property text.
const (
	ClMethod       = "method"
	ClProto        = "proto"
	ClConnection   = "connection"
	ClUpgrade      = "upgrade"
	ClVersion      = "version"
	ClKeyMissing   = "key-missing"
	ClKeyDuplicate = "key-duplicated"
	ClKeyNotBase64 = "key-not-base64"
	ClKeyLength    = "key-length"
)

// Failed lists the clauses of the predicate "may be upgraded" that r does not
// satisfy; an empty result means the request must be upgraded.
func (r Request) Failed() []string {
	var f []string
	if r.Method != "GET" { // method names are case-sensitive (RFC 7230 3.1.1)
		f = append(f, ClMethod)
	}
	if !(r.Major > 1 || (r.Major == 1 && r.Minor >= 1)) {
		f = append(f, ClProto)
	}
	if !HasToken(r.Connection, "upgrade") {
		f = append(f, ClConnection)
	}
	if !HasToken(r.Upgrade, "websocket") {
		f = append(f, ClUpgrade)
	}
	if !(len(r.Version) == 1 && r.Version[0] == "13") {
		f = append(f, ClVersion)
	}
	switch {
	case len(r.Key) == 0:
		f = append(f, ClKeyMissing)
	case len(r.Key) > 1:
		f = append(f, ClKeyDuplicate)
	default:
		raw, err := base64.StdEncoding.DecodeString(r.Key[0])
		switch {
		case err != nil || !onlyBase64Alphabet(r.Key[0]):
			f = append(f, ClKeyNotBase64)
		case len(raw) != 16:
			f = append(f, ClKeyLength)
		}
	}
	return f
}

func onlyBase64Alphabet(s string) bool {
	for i := 0; i < len(s); i++ {
		c := s[i]
		switch {
		case 'A' <= c && c <= 'Z', 'a' <= c && c <= 'z', '0' <= c && c <= '9', c == '+', c == '/', c == '=':
		default:
			return false
		}
	}
	return true
}

// Subprotocols returns the admissible selections for a client that offered the
// token list in offered and a server whose preferences, best first, are
// supported. The property text does not say whether names are compared with or
// without regard to case, so both readings are admissible, and under the
// case-insensitive reading both spellings are: exact is the selection under
// byte-wise comparison, foldClient / foldServer the client's and the server's
// spelling under case-insensitive comparison. "" means no subprotocol.
func Subprotocols(offered, supported []string) (exact, foldClient, foldServer string) {
	toks := Tokens(offered)
	for _, s := range supported {
		for _, t := range toks {
			if exact == "" && s == t {
				exact = t
			}
		}
	}
	for _, s := range supported {
		for _, t := range toks {
			if asciiLower(s) == asciiLower(t) {
				return exact, t, s
			}
		}
	}
	return exact, "", ""
}

// GlobMatch reports whether the whole of s matches pattern, ASCII
// case-insensitively. '*' stands for any run (possibly empty) of characters
// other than '/', '?' for exactly one character other than '/'; every other
// character stands for itself.
func GlobMatch(pattern, s string) bool {
	return glob(asciiLower(pattern), asciiLower(s))
}

func glob(p, s string) bool {
	if p == "" {
		return s == ""
	}
	switch p[0] {
	case '*':
		for i := 0; ; i++ {
			if glob(p[1:], s[i:]) {
				return true
			}
			if i == len(s) || s[i] == '/' {
				return false
			}
		}
	case '?':
		return s != "" && s[0] != '/' && glob(p[1:], s[1:])
	default:
		return s != "" && s[0] == p[0] && glob(p[1:], s[1:])
	}
}

// Origin is an Origin header value generated from its parts, so that the host
// it names is known without parsing.
type Origin struct {
	Scheme   string `json:"scheme"`
	Userinfo string `json:"userinfo"` // without the '@'
	Host     string `json:"host"`
	Port     string `json:"port"` // digits, without the ':'
	Tail     string `json:"tail"` // path, query and/or fragment, starting with '/', '?' or '#'
}

func (o Origin) String() string {
	s := o.Scheme + "://"
	if o.Userinfo != "" {
		s += o.Userinfo + "@"
	}
	return s + o.HostPort() + o.Tail
}

func (o Origin) HostPort() string {
	if o.Port != "" {
		return o.Host + ":" + o.Port
	}
	return o.Host
}

// Verdict of the C12 model on one request.
type Verdict int

const (
	Unconstrained Verdict = iota // the property text does not decide this case
	MustAccept
	MustRefuse // 403, no upgrade
)

func (v Verdict) String() string {
	return [...]string{"unconstrained", "must-accept", "must-refuse"}[v]
}

// OriginCase is one C12 situation. ReqName/ReqPort are the two parts of the
// request's Host ("name[:port]"), known by construction. Exactly one of
// NoOrigin, Hostless, or a generated Origin applies.
type OriginCase struct {
	ReqName, ReqPort string
	NoOrigin         bool
	Hostless         bool // an Origin value that names no host in scheme://host form
	Origin           Origin
	Patterns         []string
	SkipVerify       bool
}

func foldEq(a, b string) bool { return asciiLower(a) == asciiLower(b) }

// Decide applies the property text and nothing more. reason is a short stable
// label for the rule that fired.
func (c OriginCase) Decide() (v Verdict, reason string) {
	if c.SkipVerify {
		return MustAccept, "skip-verify"
	}
	if c.NoOrigin {
		return MustAccept, "no-origin"
	}
	if c.Hostless {
		return Unconstrained, "hostless"
	}
	reqHost := c.ReqName
	if c.ReqPort != "" {
		reqHost += ":" + c.ReqPort
	}
	hp := c.Origin.HostPort()
	if foldEq(hp, reqHost) {
		return MustAccept, "same-host"
	}
	both, either := false, false
	for _, p := range c.Patterns {
		mh, mhp := GlobMatch(p, c.Origin.Host), GlobMatch(p, hp)
		if mh && mhp {
			both = true
		}
		if mh || mhp {
			either = true
		}
	}
	if both {
		return MustAccept, "pattern"
	}
	if either {
		// the text does not say whether patterns see the port
		return Unconstrained, "pattern-port-dependent"
	}
	if foldEq(c.Origin.Host, c.ReqName) {
		// same host name, different port. "The request's Host" is the Host header
		// (name[:port]) and the property's origin grammar varies ports, so the
		// comparison is on the whole of name[:port]: another port of the same
		// machine is another origin and must be refused.
		return MustRefuse, "port-only-difference"
	}
	if foldEq(strings.TrimSuffix(c.Origin.Host, "."), strings.TrimSuffix(c.ReqName, ".")) {
		// the same DNS name written with and without the root label
		return Unconstrained, "trailing-dot"
	}
	return MustRefuse, "cross-origin"
}
