// Package hsclient is an independent reference for the opening handshake as a
// client sees it (RFC 6455 section 4.1/4.2.2) and for the permessage-deflate
// negotiation grammar and admissibility rules (RFC 7692 section 7).
//
// It is written from the RFC text and the property statements only; it must
// not import the library under verification.
package hsclient

import (
	"crypto/sha1"
	"encoding/base64"
	"fmt"
	"sort"
	"strings"
)

// ---------------------------------------------------------------- tokens

// Tokens splits the values of a list-valued header (RFC 7230 #rule) into its
// comma separated elements, trimmed, dropping empty elements.
func Tokens(values []string) []string {
	var out []string
	for _, v := range values {
		for _, t := range strings.Split(v, ",") {
			t = strings.Trim(t, " \t")
			if t != "" {
				out = append(out, t)
			}
		}
	}
	return out
}

// HasToken reports whether the list-valued header names tok (case-insensitive).
func HasToken(values []string, tok string) bool {
	for _, t := range Tokens(values) {
		if strings.EqualFold(t, tok) {
			return true
		}
	}
	return false
}

const guid = "258EAFA5-E914-47DA-95CA-C5AB0DC85B11"

// AcceptFor is the Sec-WebSocket-Accept value a server must answer for key
// (RFC 6455 4.2.2 step 5.4).
func AcceptFor(key string) string {
	s := sha1.Sum([]byte(key + guid))
	return base64.StdEncoding.EncodeToString(s[:])
}

// KeyBytes decodes a Sec-WebSocket-Key; ok only for base64 of exactly 16 bytes.
func KeyBytes(key string) ([]byte, bool) {
	b, err := base64.StdEncoding.DecodeString(key)
	if err != nil || len(b) != 16 {
		return nil, false
	}
	return b, true
}

// ---------------------------------------------------------------- extension grammar (RFC 6455 9.1)

// Param is one extension parameter: token [ "=" value ].
type Param struct {
	Name     string
	Value    string
	HasValue bool
}

// Ext is one element of a Sec-WebSocket-Extensions list.
type Ext struct {
	Name   string
	Params []Param
}

func (e Ext) String() string {
	s := e.Name
	for _, p := range e.Params {
		s += "; " + p.Name
		if p.HasValue {
			s += "=" + p.Value
		}
	}
	return s
}

// ParseExtensions parses the values of all Sec-WebSocket-Extensions header
// lines into the list of extensions they carry, in order. Quoted-string
// values are unquoted; the alphabets used by the checks contain no quoted
// commas or semicolons.
func ParseExtensions(values []string) []Ext {
	var out []Ext
	for _, el := range Tokens(values) {
		parts := strings.Split(el, ";")
		e := Ext{Name: strings.Trim(parts[0], " \t")}
		for _, ps := range parts[1:] {
			ps = strings.Trim(ps, " \t")
			var p Param
			if i := strings.IndexByte(ps, '='); i >= 0 {
				p.Name = strings.Trim(ps[:i], " \t")
				p.Value = strings.Trim(ps[i+1:], " \t")
				p.HasValue = true
				if len(p.Value) >= 2 && p.Value[0] == '"' && p.Value[len(p.Value)-1] == '"' {
					p.Value = p.Value[1 : len(p.Value)-1]
				}
			} else {
				p.Name = ps
			}
			e.Params = append(e.Params, p)
		}
		out = append(out, e)
	}
	return out
}

// ---------------------------------------------------------------- permessage-deflate (RFC 7692 7.1)

const PMD = "permessage-deflate"

// Defect kinds of a permessage-deflate parameter list. The empty string means
// no defect.
const (
	DefUnknownParam       = "unknown-parameter"
	DefDuplicate          = "duplicate-parameter"
	DefIllegalValue       = "param-with-illegal-value" // a *_no_context_takeover parameter carrying a value
	DefClientBitsRange    = "client_max_window_bits-out-of-range"
	DefClientBitsNonNum   = "client_max_window_bits-non-numeric"
	DefClientBitsBare     = "client_max_window_bits-bare" // only a defect in a response
	DefServerBitsBare     = "server_max_window_bits-bare"
	DefServerBitsRange    = "server_max_window_bits-out-of-range"
	DefServerBitsNonNum   = "server_max_window_bits-non-numeric"
	DefClientBitsNotOffer = "client_max_window_bits-not-offered" // response only
)

// Deflate is the content of a well-formed (or partly well-formed) parameter list.
type Deflate struct {
	ClientNoCtx bool
	ServerNoCtx bool
	// ClientBits: -1 absent, 0 present without value, 8..15 value.
	ClientBits int
	// ServerBits: -1 absent, 8..15 value.
	ServerBits int
}

// windowBits parses the value of a *_max_window_bits parameter: a decimal
// integer without leading zeros in 8..15 (RFC 7692 7.1.2.1 / 7.1.2.2).
// It returns the value and "" or the defect suffix "non-numeric" / "out-of-range".
func windowBits(v string) (int, string) {
	if v == "" {
		return 0, "non-numeric"
	}
	n := 0
	for _, ch := range v {
		if ch < '0' || ch > '9' {
			return 0, "non-numeric"
		}
		n = n*10 + int(ch-'0')
		if n > 1000 {
			return 0, "out-of-range"
		}
	}
	if v[0] == '0' || n < 8 || n > 15 {
		return 0, "out-of-range"
	}
	return n, ""
}

// Analyze reads the parameters of a permessage-deflate element. response
// selects the rules for a negotiation response (client_max_window_bits needs a
// value) instead of an offer. The first defect in parameter order is returned
// ("" when the list is well-formed); all defects are returned in all.
func Analyze(e Ext, response bool) (d Deflate, first string, all []string) {
	d.ClientBits, d.ServerBits = -1, -1
	seen := map[string]bool{}
	add := func(k string) {
		all = append(all, k)
		if first == "" {
			first = k
		}
	}
	for _, p := range e.Params {
		name := p.Name
		if seen[name] {
			add(DefDuplicate)
			continue
		}
		seen[name] = true
		switch name {
		case "client_no_context_takeover":
			if p.HasValue {
				add(DefIllegalValue)
				continue
			}
			d.ClientNoCtx = true
		case "server_no_context_takeover":
			if p.HasValue {
				add(DefIllegalValue)
				continue
			}
			d.ServerNoCtx = true
		case "client_max_window_bits":
			if !p.HasValue {
				if response {
					add(DefClientBitsBare)
					continue
				}
				d.ClientBits = 0
				continue
			}
			n, bad := windowBits(p.Value)
			if bad != "" {
				add("client_max_window_bits-" + bad)
				continue
			}
			d.ClientBits = n
		case "server_max_window_bits":
			if !p.HasValue {
				add(DefServerBitsBare)
				continue
			}
			n, bad := windowBits(p.Value)
			if bad != "" {
				add("server_max_window_bits-" + bad)
				continue
			}
			d.ServerBits = n
		default:
			add(DefUnknownParam)
		}
	}
	return d, first, all
}

// ServerCaps describes what a server implementation can honour.
type ServerCaps struct {
	// MinServerBits is the smallest LZ77 window the server can restrict itself
	// to (15 = cannot reduce its window at all).
	MinServerBits int
}

// OfferStatus classifies one element of an offer list from the server's view.
type OfferStatus struct {
	Ext        Ext
	IsPMD      bool
	Deflate    Deflate
	Defect     string // first grammar defect, "" if well-formed
	Unhonoured string // "" or "server_max_window_bits-below-<min>" when well-formed but beyond the server's capability
	Honourable bool   // IsPMD && Defect=="" && Unhonoured==""
}

// ClassifyOffers analyses every element of an offer list.
func ClassifyOffers(exts []Ext, caps ServerCaps) []OfferStatus {
	var out []OfferStatus
	for _, e := range exts {
		st := OfferStatus{Ext: e, IsPMD: e.Name == PMD}
		if st.IsPMD {
			st.Deflate, st.Defect, _ = Analyze(e, false)
			if st.Defect == "" && st.Deflate.ServerBits >= 0 && st.Deflate.ServerBits < caps.MinServerBits {
				st.Unhonoured = fmt.Sprintf("server_max_window_bits-below-%d", caps.MinServerBits)
			}
			st.Honourable = st.Defect == "" && st.Unhonoured == ""
		}
		out = append(out, st)
	}
	return out
}

// ResponseFitsOffer reports whether a well-formed response r is one a client
// may receive as the acceptance of the well-formed offer o (RFC 7692 7.1):
//   - server_no_context_takeover must be echoed when offered (7.1.1.1); the
//     server may also add it on its own;
//   - client_no_context_takeover may always be present (7.1.1.2);
//   - client_max_window_bits only if the offer carried it, and not above the
//     offered value (7.1.2.2);
//   - server_max_window_bits, if present, not above the offered value (7.1.2.1).
//
// why names the first rule that fails.
func ResponseFitsOffer(r, o Deflate) (ok bool, why string) {
	if o.ServerNoCtx && !r.ServerNoCtx {
		return false, "omits-server_no_context_takeover"
	}
	if r.ClientBits >= 0 {
		if o.ClientBits < 0 {
			return false, "client_max_window_bits-not-offered"
		}
		if o.ClientBits > 0 && r.ClientBits > o.ClientBits {
			return false, "client_max_window_bits-above-offer"
		}
	}
	if r.ServerBits >= 0 && o.ServerBits >= 0 && r.ServerBits > o.ServerBits {
		return false, "server_max_window_bits-above-offer"
	}
	if o.ServerBits >= 0 && o.ServerBits < 15 && r.ServerBits < 0 {
		return false, "omits-server_max_window_bits"
	}
	return true, ""
}

// ---------------------------------------------------------------- client-side judgement of a response

// Verdict of one clause or of the whole response.
type Verdict int

const (
	Invalid       Verdict = iota // the property demands rejection
	Valid                        // the property demands acceptance (given all other clauses)
	Unconstrained                // the property text is silent
)

func (v Verdict) String() string { return [...]string{"invalid", "valid", "unconstrained"}[v] }

// Sent is what the client put in its request.
type Sent struct {
	Key          string
	Subprotocols []string
	Offers       []Ext // parsed Sec-WebSocket-Extensions of the request
}

// Resp is the server's answer: status code and header (canonical keys).
type Resp struct {
	Status int
	Header map[string][]string
}

// Judgement is the clause vector of the response-validity predicate.
type Judgement struct {
	Status, Connection, Upgrade, Accept, Subprotocol, Extensions Verdict
	// ExtReason explains an Invalid/Unconstrained extension clause
	// (e.g. "extension-not-offered", "unknown-parameter", "server_max_window_bits-out-of-range").
	ExtReason string
	// ExtMalformed: the extension clause is Unconstrained because a known
	// parameter is malformed (bad value, duplicate); ExtReason is the defect kind.
	ExtMalformed bool
	// Agreed is the parameter set the response represents when Extensions is
	// Valid/Unconstrained and compression was agreed (nil otherwise).
	Agreed *Deflate
}

// Overall: Invalid if any clause is Invalid, else Unconstrained if any is, else Valid.
func (j Judgement) Overall() Verdict {
	all := []Verdict{j.Status, j.Connection, j.Upgrade, j.Accept, j.Subprotocol, j.Extensions}
	res := Valid
	for _, v := range all {
		if v == Invalid {
			return Invalid
		}
		if v == Unconstrained {
			res = Unconstrained
		}
	}
	return res
}

// Vector is a compact rendering of the clause vector (a model state).
func (j Judgement) Vector() string {
	c := func(v Verdict) string { return [...]string{"0", "1", "?"}[v] }
	return c(j.Status) + c(j.Connection) + c(j.Upgrade) + c(j.Accept) + c(j.Subprotocol) + c(j.Extensions) + ":" + j.ExtReason
}

func b2v(b bool) Verdict {
	if b {
		return Valid
	}
	return Invalid
}

// JudgeSubprotocol: none is fine; one the client asked for is fine; one that
// matches a requested one only up to letter case is left unconstrained; anything
// else must be rejected.
func JudgeSubprotocol(requested []string, values []string) Verdict {
	toks := Tokens(values)
	if len(toks) == 0 {
		return Valid
	}
	if len(toks) > 1 {
		// a list: every entry must at least be one the client asked for; whether a
		// list of requested names is acceptable is left open
		for _, t := range toks {
			ok := false
			for _, r := range requested {
				if strings.EqualFold(r, t) {
					ok = true
				}
			}
			if !ok {
				return Invalid
			}
		}
		return Unconstrained
	}
	for _, r := range requested {
		if r == toks[0] {
			return Valid
		}
	}
	for _, r := range requested {
		if strings.EqualFold(r, toks[0]) {
			return Unconstrained
		}
	}
	return Invalid
}

// JudgeExtensions decides whether the client (which sent offers) can honour the
// Sec-WebSocket-Extensions of a response.
func JudgeExtensions(offers []Ext, values []string) (v Verdict, reason string, agreed *Deflate) {
	v, reason, agreed, _ = judgeExtensions(offers, values)
	return
}

func judgeExtensions(offers []Ext, values []string) (v Verdict, reason string, agreed *Deflate, malformed bool) {
	exts := ParseExtensions(values)
	if len(exts) == 0 {
		return Valid, "", nil, false
	}
	var offered []Deflate
	for _, o := range offers {
		if o.Name == PMD {
			d, def, _ := Analyze(o, false)
			if def == "" {
				offered = append(offered, d)
			}
		}
	}
	for _, e := range exts {
		if e.Name != PMD {
			return Invalid, "extension-not-offered", nil, false
		}
	}
	if len(offered) == 0 {
		return Invalid, "extension-not-offered", nil, false
	}
	if len(exts) > 1 {
		return Invalid, "extension-repeated", nil, false
	}
	d, _, all := Analyze(exts[0], true)
	// Parameters that are not defined at all cannot be honoured: reject.
	for _, k := range all {
		if k == DefUnknownParam {
			return Invalid, k, nil, false
		}
	}
	// A parameter the client did not offer and which a server may not send
	// unsolicited: client_max_window_bits (with or without a value).
	for _, p := range exts[0].Params {
		if p.Name == "client_max_window_bits" {
			any := false
			for _, o := range offered {
				if o.ClientBits >= 0 {
					any = true
				}
			}
			if !any {
				return Invalid, DefClientBitsNotOffer, nil, false
			}
		}
	}
	if len(all) > 0 {
		// Known parameter names but malformed (bad value, duplicate): the
		// property text does not say; RFC 7692 says fail.
		sort.Strings(all)
		return Unconstrained, all[0], &d, true
	}
	// Well-formed: it must fit one of the offers.
	fits := false
	why := ""
	for _, o := range offered {
		ok, w := ResponseFitsOffer(d, o)
		if ok {
			fits = true
			break
		}
		if why == "" {
			why = w
		}
	}
	if !fits {
		// e.g. the server dropped server_no_context_takeover that every offer
		// asked for: the text does not clearly demand rejection.
		return Unconstrained, why, &d, false
	}
	return Valid, "", &d, false
}

// Judge evaluates the whole response-validity predicate.
func Judge(s Sent, r Resp) Judgement {
	var j Judgement
	j.Status = b2v(r.Status == 101)
	j.Connection = b2v(HasToken(r.Header["Connection"], "upgrade"))
	j.Upgrade = b2v(HasToken(r.Header["Upgrade"], "websocket"))
	acc := r.Header["Sec-Websocket-Accept"]
	j.Accept = b2v(len(acc) == 1 && strings.Trim(acc[0], " \t") == AcceptFor(s.Key))
	j.Subprotocol = JudgeSubprotocol(s.Subprotocols, r.Header["Sec-Websocket-Protocol"])
	j.Extensions, j.ExtReason, j.Agreed, j.ExtMalformed = judgeExtensions(s.Offers, r.Header["Sec-Websocket-Extensions"])
	return j
}
