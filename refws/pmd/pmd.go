// Package pmd is a small independent RFC 7692 (permessage-deflate) peer and an
// RFC 6455 section 5.2 frame encoder/decoder, used as the other endpoint in
// the message exchanges of the negotiation checks.
//
// It is written from the RFCs on top of Go's compress/flate; it must not
// import the library under verification.
package pmd

import (
	"bytes"
	"compress/flate"
	"encoding/binary"
	"errors"
	"fmt"
	"io"
)

var tail = []byte{0x00, 0x00, 0xff, 0xff}

// finalBlock is an empty stored block with BFINAL=1; it lets the inflater stop
// cleanly after the message data.
var finalBlock = []byte{0x01, 0x00, 0x00, 0xff, 0xff}

const window = 32768

// Sender compresses messages the way RFC 7692 7.2.1 describes. With context
// takeover (NoContextTakeover == false) the LZ77 window is kept from one
// message to the next, so later messages may refer back to earlier ones.
type Sender struct {
	NoContextTakeover bool
	buf               bytes.Buffer
	w                 *flate.Writer
	hist              []byte // plaintext sent so far (last 32 KiB), context takeover only
}

func (s *Sender) remember(msg []byte) {
	if s.NoContextTakeover {
		return
	}
	s.hist = append(s.hist, msg...)
	if len(s.hist) > window {
		s.hist = append([]byte(nil), s.hist[len(s.hist)-window:]...)
	}
}

func (s *Sender) fresh() (*flate.Writer, error) {
	if !s.NoContextTakeover && len(s.hist) > 0 {
		// a stream ended by a final block cannot continue; the LZ77 window can:
		// start a new stream primed with the plaintext sent so far
		return flate.NewWriterDict(&s.buf, flate.BestCompression, s.hist)
	}
	return flate.NewWriter(&s.buf, flate.BestCompression)
}

// CompressFinal returns the payload of a message whose DEFLATE stream ends with
// a BFINAL=1 block followed by one 0x00 byte (RFC 7692 7.2.3.4), as senders
// built on zlib's Z_FINISH or flate.Writer.Close produce.
func (s *Sender) CompressFinal(msg []byte) ([]byte, error) {
	s.buf.Reset()
	w, err := s.fresh()
	if err != nil {
		return nil, err
	}
	if _, err := w.Write(msg); err != nil {
		return nil, err
	}
	if err := w.Close(); err != nil {
		return nil, err
	}
	s.w = nil
	s.remember(msg)
	out := append([]byte(nil), s.buf.Bytes()...)
	return append(out, 0x00), nil
}

// Compress returns the payload of the compressed message: the DEFLATE stream
// ended with a sync flush, with the trailing 00 00 ff ff removed.
func (s *Sender) Compress(msg []byte) ([]byte, error) {
	s.buf.Reset()
	if s.w == nil || s.NoContextTakeover {
		w, err := s.fresh()
		if err != nil {
			return nil, err
		}
		s.w = w
	}
	if _, err := s.w.Write(msg); err != nil {
		return nil, err
	}
	if err := s.w.Flush(); err != nil {
		return nil, err
	}
	s.remember(msg)
	out := append([]byte(nil), s.buf.Bytes()...)
	if len(out) < 4 || !bytes.Equal(out[len(out)-4:], tail) {
		return nil, errors.New("pmd: sync flush did not end with 00 00 ff ff")
	}
	return out[:len(out)-4], nil
}

// Receiver decompresses messages (RFC 7692 7.2.2). With context takeover it
// keeps the last 32 KiB of decompressed data as the dictionary for the next
// message; without, every message is inflated from an empty window.
type Receiver struct {
	NoContextTakeover bool
	history           []byte
}

// Decompress inflates one message payload.
func (r *Receiver) Decompress(payload []byte) ([]byte, error) {
	data := make([]byte, 0, len(payload)+9)
	data = append(data, payload...)
	data = append(data, tail...)
	data = append(data, finalBlock...)
	var dict []byte
	if !r.NoContextTakeover {
		dict = r.history
	}
	fr := flate.NewReaderDict(bytes.NewReader(data), dict)
	out, err := io.ReadAll(fr)
	if err != nil {
		return out, fmt.Errorf("pmd: inflate: %w", err)
	}
	if !r.NoContextTakeover {
		h := append(r.history, out...)
		if len(h) > window {
			h = h[len(h)-window:]
		}
		r.history = append([]byte(nil), h...)
	}
	return out, nil
}

// ---------------------------------------------------------------- frames (RFC 6455 5.2)

const (
	OpContinuation = 0x0
	OpText         = 0x1
	OpBinary       = 0x2
	OpClose        = 0x8
	OpPing         = 0x9
	OpPong         = 0xA
)

// Frame is one WebSocket frame. Payload is always the unmasked application data.
type Frame struct {
	Fin, Rsv1, Rsv2, Rsv3 bool
	Opcode                byte
	Masked                bool
	MaskKey               [4]byte
	Payload               []byte
}

// AppendFrame encodes f onto dst (masking the payload if f.Masked).
func AppendFrame(dst []byte, f Frame) []byte {
	b0 := f.Opcode & 0x0f
	if f.Fin {
		b0 |= 0x80
	}
	if f.Rsv1 {
		b0 |= 0x40
	}
	if f.Rsv2 {
		b0 |= 0x20
	}
	if f.Rsv3 {
		b0 |= 0x10
	}
	dst = append(dst, b0)
	var b1 byte
	if f.Masked {
		b1 = 0x80
	}
	n := len(f.Payload)
	switch {
	case n <= 125:
		dst = append(dst, b1|byte(n))
	case n <= 0xffff:
		dst = append(dst, b1|126, byte(n>>8), byte(n))
	default:
		var l [8]byte
		binary.BigEndian.PutUint64(l[:], uint64(n))
		dst = append(dst, b1|127)
		dst = append(dst, l[:]...)
	}
	if f.Masked {
		dst = append(dst, f.MaskKey[:]...)
		for i, c := range f.Payload {
			dst = append(dst, c^f.MaskKey[i%4])
		}
		return dst
	}
	return append(dst, f.Payload...)
}

// ErrShort means b does not hold a complete frame.
var ErrShort = errors.New("pmd: incomplete frame")

// ReadFrame decodes the first frame in b and returns the remaining bytes.
func ReadFrame(b []byte) (f Frame, rest []byte, err error) {
	if len(b) < 2 {
		return f, b, ErrShort
	}
	f.Fin = b[0]&0x80 != 0
	f.Rsv1 = b[0]&0x40 != 0
	f.Rsv2 = b[0]&0x20 != 0
	f.Rsv3 = b[0]&0x10 != 0
	f.Opcode = b[0] & 0x0f
	f.Masked = b[1]&0x80 != 0
	n := uint64(b[1] & 0x7f)
	p := 2
	switch n {
	case 126:
		if len(b) < p+2 {
			return f, b, ErrShort
		}
		n = uint64(binary.BigEndian.Uint16(b[p:]))
		p += 2
	case 127:
		if len(b) < p+8 {
			return f, b, ErrShort
		}
		n = binary.BigEndian.Uint64(b[p:])
		p += 8
		if n>>63 != 0 {
			return f, b, errors.New("pmd: most significant bit of 64-bit length set")
		}
	}
	if f.Masked {
		if len(b) < p+4 {
			return f, b, ErrShort
		}
		copy(f.MaskKey[:], b[p:p+4])
		p += 4
	}
	if uint64(len(b)-p) < n {
		return f, b, ErrShort
	}
	f.Payload = make([]byte, n)
	copy(f.Payload, b[p:p+int(n)])
	if f.Masked {
		for i := range f.Payload {
			f.Payload[i] ^= f.MaskKey[i%4]
		}
	}
	return f, b[p+int(n):], nil
}

// Message is a reassembled data message as seen on the wire.
type Message struct {
	Opcode     byte
	Compressed bool // RSV1 on the first frame
	Masked     bool // every frame was masked
	Unmasked   bool // every frame was unmasked
	Frames     int
	Payload    []byte // concatenated (unmasked) frame payloads
}

// ReadMessage reassembles the next data message from b (RFC 6455 5.4),
// skipping nothing: a control frame in between is an error for the callers of
// this package, which never provoke one.
func ReadMessage(b []byte) (m Message, rest []byte, err error) {
	first := true
	m.Masked, m.Unmasked = true, true
	for {
		var f Frame
		f, b, err = ReadFrame(b)
		if err != nil {
			return m, b, err
		}
		if f.Rsv2 || f.Rsv3 {
			return m, b, errors.New("pmd: RSV2/RSV3 set")
		}
		if f.Opcode >= 0x8 {
			return m, b, fmt.Errorf("pmd: unexpected control frame opcode %#x", f.Opcode)
		}
		if first {
			if f.Opcode != OpText && f.Opcode != OpBinary {
				return m, b, fmt.Errorf("pmd: message starts with opcode %#x", f.Opcode)
			}
			m.Opcode = f.Opcode
			m.Compressed = f.Rsv1
			first = false
		} else {
			if f.Opcode != OpContinuation {
				return m, b, fmt.Errorf("pmd: opcode %#x inside a fragmented message", f.Opcode)
			}
			if f.Rsv1 {
				return m, b, errors.New("pmd: RSV1 set on a continuation frame")
			}
		}
		if f.Masked {
			m.Unmasked = false
		} else {
			m.Masked = false
		}
		m.Frames++
		m.Payload = append(m.Payload, f.Payload...)
		if f.Fin {
			return m, b, nil
		}
	}
}
