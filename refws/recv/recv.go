// Package recv is the receiving-endpoint reference model: an RFC 6455 / RFC 7692
// decoder that consumes the complete byte stream a peer sent and says what a
// correct endpoint, whose user reads message after message until a read fails,
// must be observed to do: which messages its reads return, which Pongs it
// sends, how the sequence of reads ends.
//
// It is written from the RFCs on top of refws/frame, refws/deflate and the
// standard library and does not import the library under verification. Where
// the properties leave behaviour open (non-minimal length encodings, content
// produced from a malformed DEFLATE payload, UTF-8 validity) the model stops
// with End = Unconstrained and the checks compare nothing after that point.
package recv

import (
	"bytes"
	"compress/flate"
	"encoding/binary"
	"fmt"
	"io"

	"verif/refws/deflate"
	"verif/refws/frame"
)

// DefaultReadLimit is the message size limit of an endpoint that was not told otherwise.
const DefaultReadLimit = 32768

// Config describes the receiving endpoint.
type Config struct {
	ReceiverIsClient      bool  // frames from the peer must be unmasked iff true
	Deflate               bool  // permessage-deflate negotiated
	PeerNoContextTakeover bool  // the SENDING peer resets its compression context after each message
	ReadLimit             int64 // 0 = DefaultReadLimit, -1 = unlimited
}

// Msg is one data message.
type Msg struct {
	Type          byte   // frame.OpText / frame.OpBinary
	Payload       []byte // after inflation
	Compressed    bool   // RSV1 on the first frame
	BFinal        bool   // compressed payload ends with a BFINAL=1 block + 0x00 (RFC 7692 7.2.3.4)
	EndedEarly    bool   // compressed: the fragments before the final frame already hold a complete DEFLATE stream (BFINAL=1 block)
	Unconstrained bool   // content not comparable (malformed DEFLATE payload)
	Start, End    int    // stream offsets: first byte of the first frame, one past the last byte of the final frame
	Wire          []byte // concatenated frame payloads as received (unmasked, before inflation)
	lastFrag      int    // offset in Wire at which the payload of the most recent frame begins
}

// FrameInfo locates one completely received, accepted frame in the stream.
type FrameInfo struct {
	Offset, HeaderLen, PayloadLen int
	Opcode                        byte
	Fin, Rsv1                     bool
	Msg                           int // index of the message a data frame belongs to, or that is open while a control frame arrives; -1 when idle
}

// End says how the sequence of reads ends.
type End interface{ Kind() string }

// CloseReceived: a valid Close frame arrived. The endpoint answers with a Close
// frame carrying the same code (none for 1005) and the failing read returns a
// CloseError with that code and reason.
type CloseReceived struct {
	Code   int
	Reason string
}

// ProtocolError: first violation of the framing rules. The read fails (it is not
// a clean end of message), the violating frame's data is not delivered; which
// status code the endpoint sends is not constrained.
type ProtocolError struct{ Rule string }

// StreamEnd: the byte stream ran out.
type StreamEnd struct {
	Offset              int    // = len(stream)
	InsideMessage       bool   // a data message was open (at least its first header was complete)
	DeliveredPrefix     []byte // payload bytes of the open message received so far (uncompressed messages)
	PrefixUnconstrained bool   // open message is compressed: the prefix is not computed here
}

// Unconstrained: from here on the properties do not say what must happen.
type Unconstrained struct{ Why string }

func (CloseReceived) Kind() string { return "close" }
func (ProtocolError) Kind() string { return "violation" }
func (StreamEnd) Kind() string     { return "stream-end" }
func (Unconstrained) Kind() string { return "unconstrained" }

// Rule names of ProtocolError.
const (
	RuleRsv2            = "rsv2"
	RuleRsv3            = "rsv3"
	RuleRsv1NotNeg      = "rsv1-not-negotiated"
	RuleRsv1Control     = "rsv1-on-control"
	RuleRsv1Cont        = "rsv1-on-continuation"
	RuleOpcode          = "reserved-opcode"
	RuleMask            = "mask-wrong-for-role"
	RuleControlLong     = "control-too-long"
	RuleControlFrag     = "control-fragmented"
	RuleLenTopBit       = "length-top-bit"
	RuleContNoMsg       = "continuation-without-message"
	RuleDataInMsg       = "data-frame-inside-message"
	RuleClosePayload1   = "close-payload-1-byte"
	RuleCloseCode       = "close-code-invalid"
	RuleReadLimit       = "read-limit"
	WhyNonMinimal       = "non-minimal-length"
	WhyMalformedDeflate = "malformed-deflate"
)

// Trace is the expected observable behaviour.
type Trace struct {
	Messages []Msg    // completely received messages, in order
	Pongs    [][]byte // payloads of the Pongs the endpoint must send, in order
	End      End
	Open     *Msg // the message open when End was reached (payload = fragments received so far), nil if none
	// OpenDeflateEnded: the open message is compressed and the fragments received
	// so far already hold a complete DEFLATE stream ending with a BFINAL=1 block,
	// while its final frame is still outstanding.
	OpenDeflateEnded bool
	Frames           []FrameInfo // accepted frames in stream order
	State            string      // abstract state of the machine at End
}

// state kinds of the machine
func stateName(open *Msg, end End) string {
	switch e := end.(type) {
	case CloseReceived:
		return "Closed"
	case ProtocolError:
		return "Failed(" + e.Rule + ")"
	case Unconstrained:
		return "Unconstrained(" + e.Why + ")"
	}
	if open == nil {
		return "Idle"
	}
	t := "text"
	if open.Type == frame.OpBinary {
		t = "binary"
	}
	c := "plain"
	if open.Compressed {
		c = "compressed"
	}
	return "InMessage(" + t + "," + c + ")"
}

type machine struct {
	cfg   Config
	limit int64
	inf   *deflate.Inflater
	hist  []byte // own copy of the inflate history, for the well-formedness probe
}

var deflateTail = []byte{0x00, 0x00, 0xff, 0xff}

// probeSuffix is a final stored block holding the single byte 'Z'.
var probeSuffix = []byte{0x01, 0x01, 0x00, 0xfe, 0xff, 'Z'}

type countReader struct {
	b   []byte
	pos int
}

func (r *countReader) ReadByte() (byte, error) {
	if r.pos >= len(r.b) {
		return 0, io.EOF
	}
	c := r.b[r.pos]
	r.pos++
	return c, nil
}

func (r *countReader) Read(p []byte) (int, error) {
	if r.pos >= len(r.b) {
		return 0, io.EOF
	}
	n := copy(p, r.b[r.pos:])
	r.pos += n
	return n, nil
}

// inflate returns the message payload, or ok=false if the compressed payload is
// not a well-formed RFC 7692 message payload: either a DEFLATE stream that,
// once 00 00 ff ff is appended, ends exactly at a block boundary (7.2.1), or
// one whose BFINAL=1 block is followed by exactly one 0x00 byte (7.2.3.4).
//
// The block-boundary test appends a further final stored block holding 'Z': at
// a block boundary the decoder must consume exactly that block and produce
// exactly one more byte; a decoder that ran out of input in the middle of a
// block interprets those bytes as something else.
func (m *machine) inflate(wire []byte) (out []byte, ok, bfinal bool) {
	out, err := m.inf.Message(wire)
	if err != nil {
		return nil, false, false
	}
	var dict []byte
	if !m.cfg.PeerNoContextTakeover {
		dict = m.hist
	}
	all := make([]byte, 0, len(wire)+10)
	all = append(all, wire...)
	all = append(all, deflateTail...)
	all = append(all, probeSuffix...)
	cr := &countReader{b: all}
	got, perr := io.ReadAll(flate.NewReaderDict(cr, dict))
	if perr != nil {
		return nil, false, false
	}
	switch {
	case cr.pos == len(all) && len(got) == len(out)+1 && bytes.Equal(got[:len(out)], out) && got[len(out)] == 'Z':
		// sync-flush ending
	case len(wire) > 0 && cr.pos == len(wire)-1 && wire[len(wire)-1] == 0x00 && bytes.Equal(got, out):
		bfinal = true
	default:
		return nil, false, false
	}
	if !m.cfg.PeerNoContextTakeover {
		m.hist = append(m.hist, out...)
		if len(m.hist) > 32768 {
			m.hist = append([]byte(nil), m.hist[len(m.hist)-32768:]...)
		}
	}
	return out, true, bfinal
}

// deflateCorrupt reports whether wire, the payload fragments of a compressed
// message received so far, can no longer be the beginning of any DEFLATE stream.
func (m *machine) deflateCorrupt(wire []byte) bool {
	var dict []byte
	if !m.cfg.PeerNoContextTakeover {
		dict = m.hist
	}
	_, err := io.Copy(io.Discard, flate.NewReaderDict(&countReader{b: wire}, dict))
	return err != nil && err != io.ErrUnexpectedEOF
}

// deflateEnded reports whether wire alone is a complete DEFLATE stream (its
// BFINAL=1 block ends inside wire).
func (m *machine) deflateEnded(wire []byte) bool {
	var dict []byte
	if !m.cfg.PeerNoContextTakeover {
		dict = m.hist
	}
	_, err := io.Copy(io.Discard, flate.NewReaderDict(&countReader{b: wire}, dict))
	return err == nil
}

// Run consumes the complete byte stream the peer sent.
func Run(stream []byte, cfg Config) Trace {
	m := &machine{cfg: cfg, limit: cfg.ReadLimit}
	if m.limit == 0 {
		m.limit = DefaultReadLimit
	}
	m.inf = &deflate.Inflater{NoContextTakeover: cfg.PeerNoContextTakeover}
	var t Trace
	var open *Msg

	finish := func(e End) Trace {
		t.End = e
		t.Open = open
		if open != nil && open.Compressed {
			t.OpenDeflateEnded = m.deflateEnded(open.Wire)
		}
		t.State = stateName(open, e)
		return t
	}
	streamEnd := func() Trace {
		se := StreamEnd{Offset: len(stream), InsideMessage: open != nil}
		if open != nil {
			if open.Compressed {
				se.PrefixUnconstrained = true
			} else {
				se.DeliveredPrefix = open.Wire
			}
		}
		return finish(se)
	}

	off := 0
	for {
		if off == len(stream) {
			return streamEnd()
		}
		f, n, err := frame.Parse(stream[off:])
		if err != nil && f.HeaderLen == 0 {
			// stream ends inside a frame header: nothing of this frame can be judged
			return streamEnd()
		}
		control := f.Opcode >= 8

		// ---- rules that need only the header, in a fixed order
		switch {
		case f.Rsv2:
			return finish(ProtocolError{RuleRsv2})
		case f.Rsv3:
			return finish(ProtocolError{RuleRsv3})
		}
		switch f.Opcode {
		case frame.OpCont, frame.OpText, frame.OpBinary, frame.OpClose, frame.OpPing, frame.OpPong:
		default:
			return finish(ProtocolError{RuleOpcode})
		}
		if f.Rsv1 {
			switch {
			case control:
				return finish(ProtocolError{RuleRsv1Control})
			case f.Opcode == frame.OpCont:
				return finish(ProtocolError{RuleRsv1Cont})
			case !cfg.Deflate:
				return finish(ProtocolError{RuleRsv1NotNeg})
			}
		}
		if f.Masked == cfg.ReceiverIsClient {
			return finish(ProtocolError{RuleMask})
		}
		if f.LenClass == 2 && f.DeclaredLen>>63 != 0 {
			return finish(ProtocolError{RuleLenTopBit})
		}
		if control {
			if f.DeclaredLen > 125 {
				return finish(ProtocolError{RuleControlLong})
			}
			if !f.Fin {
				return finish(ProtocolError{RuleControlFrag})
			}
		} else {
			if f.Opcode == frame.OpCont && open == nil {
				return finish(ProtocolError{RuleContNoMsg})
			}
			if f.Opcode != frame.OpCont && open != nil {
				return finish(ProtocolError{RuleDataInMsg})
			}
		}
		if !f.LenMinimal {
			return finish(Unconstrained{WhyNonMinimal})
		}
		if !control {
			if open == nil {
				open = &Msg{Type: f.Opcode, Compressed: f.Rsv1, Start: off}
			}
		}

		if err != nil {
			// header complete, payload not: the stream ends inside this frame
			if !control {
				open.Wire = append(open.Wire, partialPayload(stream[off:], f)...)
			}
			return streamEnd()
		}
		if !control && !open.Compressed && m.limit >= 0 && uint64(len(open.Wire))+f.DeclaredLen > uint64(m.limit) {
			// the message does not fit the read limit; whatever part of it arrived
			// may have been handed over before the read failed
			open.Wire = append(open.Wire, f.Payload...)
			return finish(ProtocolError{RuleReadLimit})
		}

		// ---- a complete frame
		fi := FrameInfo{Offset: off, HeaderLen: f.HeaderLen, PayloadLen: len(f.Payload), Opcode: f.Opcode, Fin: f.Fin, Rsv1: f.Rsv1, Msg: -1}
		if open != nil {
			fi.Msg = len(t.Messages)
		}
		switch f.Opcode {
		case frame.OpPing:
			t.Frames = append(t.Frames, fi)
			t.Pongs = append(t.Pongs, f.Payload)
		case frame.OpPong:
			t.Frames = append(t.Frames, fi)
		case frame.OpClose:
			switch {
			case len(f.Payload) == 0:
				t.Frames = append(t.Frames, fi)
				return finish(CloseReceived{Code: 1005})
			case len(f.Payload) == 1:
				return finish(ProtocolError{RuleClosePayload1})
			}
			code := int(binary.BigEndian.Uint16(f.Payload))
			if !frame.ValidCloseCode(code) {
				return finish(ProtocolError{RuleCloseCode})
			}
			t.Frames = append(t.Frames, fi)
			return finish(CloseReceived{Code: code, Reason: string(f.Payload[2:])})
		default:
			t.Frames = append(t.Frames, fi)
			open.lastFrag = len(open.Wire)
			open.Wire = append(open.Wire, f.Payload...)
			if f.Fin {
				msg := *open
				msg.End = off + n
				if msg.Compressed {
					msg.EndedEarly = msg.lastFrag > 0 && m.deflateEnded(msg.Wire[:msg.lastFrag])
					out, ok, bfinal := m.inflate(msg.Wire)
					if !ok {
						msg.Unconstrained = true
						t.Messages = append(t.Messages, msg)
						open = nil
						return finish(Unconstrained{WhyMalformedDeflate})
					}
					msg.Payload = out
					msg.BFinal = bfinal
					if m.limit >= 0 && int64(len(out)) > m.limit {
						open.Wire = out // anything handed over is a prefix of the inflated payload
						open.Compressed = false
						return finish(ProtocolError{RuleReadLimit})
					}
				} else {
					msg.Payload = msg.Wire
				}
				t.Messages = append(t.Messages, msg)
				open = nil
			} else if open.Compressed && m.deflateCorrupt(open.Wire) {
				// the fragments received so far are already undecodable: a decoder may
				// fail here or at any later point of this message
				open.Unconstrained = true
				return finish(Unconstrained{WhyMalformedDeflate})
			}
		}
		off += n
	}
}

// partialPayload returns the (unmasked) payload bytes of f that are present in
// b, which starts at the frame's first byte and ends inside its payload.
func partialPayload(b []byte, f frame.Frame) []byte {
	if f.HeaderLen > len(b) {
		return nil
	}
	p := append([]byte(nil), b[f.HeaderLen:]...)
	if uint64(len(p)) > f.DeclaredLen {
		p = p[:f.DeclaredLen]
	}
	if f.Masked {
		for i := range p {
			p[i] ^= f.Key[i%4]
		}
	}
	return p
}

func (e CloseReceived) String() string { return fmt.Sprintf("CloseReceived(%d,%q)", e.Code, e.Reason) }
func (e ProtocolError) String() string { return "ProtocolError(" + e.Rule + ")" }
func (e StreamEnd) String() string {
	return fmt.Sprintf("StreamEnd(offset=%d,insideMessage=%v)", e.Offset, e.InsideMessage)
}
func (e Unconstrained) String() string { return "Unconstrained(" + e.Why + ")" }
