#!/bin/bash
# tools/benigntest.sh <patch.diff> [props...]: runs the quick checks against a behaviour-preserving
# change (through --patch, /repo untouched); every check must exit 0 (known findings aside).
set -u
PATCH=$1; shift
PROPS=${*:-C01 C02 C03 C04 C05 C06 C07 C08 C09 C10 C11 C12 C13 C14 C15 C16 C17 C18 C19 C20}
cd "$(dirname "$0")/.."
bad=0
for p in $PROPS; do
  out=$(bin/vcheck run $p --patch "$PATCH" 2>&1); rc=$?
  if [ $rc -ne 0 ]; then
    bad=1
    echo "ALARM $p exit=$rc patch=$PATCH"
    echo "$out" | grep -v "^KNOWN" | grep "class:\|ENGINE\|VIOLATION\|scenario\|^  " | head -12
  fi
done
[ $bad -eq 0 ] && echo "CLEAN $PATCH"
exit $bad
