#!/usr/bin/env python3
"""Regenerates MANIFEST.json from tools/manifest_src.json (claimed checks) and properties.jsonl."""
import json, sys, os
root = os.path.dirname(os.path.dirname(os.path.abspath(__file__)))
src = json.load(open(os.path.join(root, 'tools', 'manifest_src.json')))
props = [json.loads(l) for l in open(os.path.join(root, 'properties.jsonl'))]
checks = []
na = []
for p in props:
    pid = p['id']
    c = src['checks'].get(pid)
    if c is None:
        na.append({"property_id": pid, "reason": src['not_applicable'].get(pid, "check not built yet in this session; see DESIGN.md section 5 for the planned model-checking harness")})
        continue
    checks.append({
        "property_id": pid,
        "quick_cmd": f"bin/vcheck run {pid} --tier quick",
        "thorough_cmd": f"bin/vcheck run {pid} --tier thorough",
        "evidence_file": f"/verif/evidence/{pid}.json",
        "replay_cmd_template": "bin/vcheck replay {path}",
        "engine": c['engine'],
        "level_claimed": {"category": c['level'], "text": c['text'], "design_ref": c.get('design_ref', 'DESIGN.md §5 ' + pid)},
        "level_note": c['note'],
        "technique": c['technique'],
    })
m = {
    "version": 1,
    "setup_cmd": "cd /verif && export GOFLAGS=-mod=mod GOPROXY=off GOSUMDB=off GOTOOLCHAIN=local && mkdir -p bin && go build -o bin/vcheck ./cmd/vcheck && bin/vcheck setup",
    "hooks": src['hooks'],
    "engines": src['engines'],
    "checks": checks,
    "notes": src['notes'],
    "not_applicable": na,
}
json.dump(m, open(os.path.join(root, 'MANIFEST.json'), 'w'), indent=1)
print("checks:", len(checks), "not_applicable:", len(na))
