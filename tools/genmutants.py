#!/usr/bin/env python3
"""tools/genmutants.py: rebuild mutants/index.json from (a) the `fixed` entries of
known_findings.jsonl (patch mutants/revert-<commit>.patch must exist) and (b) every
seeded/<id>/meta.json. Seeds whose meta.json says "outside_property_text": true are
listed with "expect":"undetected" and are skipped by selftest."""
import json, os, glob
root = os.path.dirname(os.path.dirname(os.path.abspath(__file__)))
out = []
for ln in open(f"{root}/known_findings.jsonl"):
    ln = ln.strip()
    if not ln:
        continue
    e = json.loads(ln)
    if e.get("status") != "fixed":
        continue
    p = f"mutants/revert-{e['commit']}.patch"
    if not os.path.exists(f"{root}/{p}"):
        raise SystemExit(f"missing {p}")
    out.append({"patch": p, "property": e["property"], "note": f"revert of fix commit {e['commit']}: {e['line']}"})
for mp in sorted(glob.glob(f"{root}/seeded/*/meta.json")):
    m = json.load(open(mp))
    sid = m["id"]
    ent = {"patch": f"seeded/{sid}/patch.diff", "property": m.get("detected_by", m["breaks_property"]), "note": "seeded change " + sid}
    if m.get("detected_by"):
        ent["note"] += f" (seeded against {m['breaks_property']}; it violates {m['detected_by']}'s clause, see meta.json)"
    if m.get("not_detected") and not m.get("outside_property_text"):
        ent["expect"] = "undetected"
        ent["note"] += " (a miss: not detected by the checks as they stand, see meta.json)"
    if m.get("outside_property_text"):
        ent["expect"] = "undetected"
        ent["note"] += " (not a violation of the property as stated; kept for the record)"
    out.append(ent)
json.dump(out, open(f"{root}/mutants/index.json", "w"), indent=1)
print(len(out), "entries")
