#!/usr/bin/env python3
"""tools/mkseedprompts.py <round-text-file> <outdir> <wtroot>: one prompt per property = seed_prompt.tmpl
+ the list of earlier seeded changes of that property (first line of each notes file) + the round's
extra guidance. The prompt contains nothing about the checks."""
import json, os, sys, re
root = os.path.dirname(os.path.dirname(os.path.abspath(__file__)))
extra = open(sys.argv[1]).read()
outdir, wtroot = sys.argv[2], sys.argv[3]
tmpl = open(f"{root}/tools/seed_prompt.tmpl").read()
props = [json.loads(l) for l in open(f"{root}/properties.jsonl")]
for p in props:
    pid = p["id"]
    earlier = []
    ids = sorted([d for d in os.listdir(f"{root}/seeded") if d.startswith(pid + "-")], key=lambda s: int(s.split("-")[1]))
    for d in ids:
        f = f"{root}/seeded/{d}/notes.md.txt"
        line = ""
        if os.path.exists(f):
            for ln in open(f):
                ln = ln.strip().lstrip("#").strip()
                if ln:
                    line = ln
                    break
        if not line:
            line = "(no summary)"
        # second informative line: the "Site:" line if any
        site = ""
        if os.path.exists(f):
            for ln in open(f):
                if re.match(r"\s*(\*\*)?Site", ln):
                    site = ln.strip()[:200]
                    break
        earlier.append(f" - {line[:220]}" + (f" [{site}]" if site else ""))
    text = tmpl.replace("__WT__", f"{wtroot}/{pid}").replace("__PROP__", f"{pid}: {p['title']}\n{p['statement']}\n(quantified over: {p.get('quantifier','')})")
    text += "\n\n" + extra + "\n\nChanges that ALREADY exist for this property (do not repeat these mechanisms or sites; find different ones):\n" + "\n".join(earlier) + "\n"
    open(f"{outdir}/{pid}.txt", "w").write(text)
print("ok", len(props))
