#!/usr/bin/env python3
"""tools/seedrerun.py <seed-id>... : re-run the property's check against a stored seeded
change (through --patch, /repo untouched) and append the result to seeded/<id>/meta.json."""
import json, subprocess, sys, re, os
root = os.path.dirname(os.path.dirname(os.path.abspath(__file__)))
tier = os.environ.get("TIER", "quick")
for sid in sys.argv[1:]:
    mp = f"{root}/seeded/{sid}/meta.json"
    m = json.load(open(mp))
    prop = m.get("detected_by", m["breaks_property"])
    r = subprocess.run([f"{root}/bin/vcheck", "run", prop, "--tier", tier, "--patch", f"{root}/seeded/{sid}/patch.diff"],
                       cwd=root, capture_output=True, text=True)
    out = r.stdout + r.stderr
    classes = sorted(set(re.findall(r"class: (\S+)", out)))[:8]
    m.setdefault("runs", []).append({"check": prop, "tier": tier, "exit": r.returncode, "detected": r.returncode == 1, "classes": classes})
    json.dump(m, open(mp, "w"), indent=1)
    print(sid, "exit", r.returncode, ";".join(classes)[:200], flush=True)
