#!/bin/bash
# tools/seedtest.sh <seed-out-dir> <seed-id> <prop> [tier]
# 1. confirms the seeded change in a scratch worktree (builds, repo tests pass, demo fails with / passes without)
# 2. applies it to /repo, runs the property's check, reverts /repo
# 3. stores patch, demo and meta.json under /verif/seeded/<seed-id>/
set -u
export GOFLAGS=-mod=mod GOPROXY=off GOSUMDB=off GOTOOLCHAIN=local
SRC=$1; ID=$2; PROP=$3; TIER=${4:-quick}
WT=/tmp/sw-$ID
LOG=/tmp/seedtest-$ID.log
: > $LOG
git -C /repo worktree remove --force $WT >/dev/null 2>&1
git -C /repo worktree add -q --detach $WT HEAD || exit 2
cleanup() { git -C /repo worktree remove --force $WT >/dev/null 2>&1; rm -f /tmp/seed-$ID-applied.diff $LOG; }
trap cleanup EXIT
cd $WT
if ! git apply --3way $SRC/patch.diff >>$LOG 2>&1 && ! git apply $SRC/patch.diff >>$LOG 2>&1; then echo "RESULT $ID patch-does-not-apply"; exit 3; fi
git diff HEAD > /tmp/seed-$ID-applied.diff
BUILD=ok; go build ./... >>$LOG 2>&1 && go build -tags verif ./... >>$LOG 2>&1 && go vet . >>$LOG 2>&1 || BUILD=fail
TESTS=ok; for i in 1 2; do go test -vet=off -count=1 ./... >>$LOG 2>&1 || TESTS=fail; done
DEMO_WITH=na; DEMO_WITHOUT=na
if [ -f $SRC/demo_test.go ]; then
  cp $SRC/demo_test.go $WT/zz_seed_demo_test.go
  NAMES=$(grep -o "^func Test[A-Za-z0-9_]*" $WT/zz_seed_demo_test.go | sed 's/func //' | paste -sd'|')
  # a demo "fails" when one of its tests fails or panics or does not build; the package's TestMain
  # reporting leaked goroutines after a PASS (demos often leave connections open) does not count
  demo() { go test -vet=off -count=1 -v -run "^($NAMES)\$" . >/tmp/seed-$ID-demo.out 2>&1; cat /tmp/seed-$ID-demo.out >>$LOG; if grep -q "^--- FAIL\|^panic:\|^fatal error:\|build failed\|^FAIL.*setup failed" /tmp/seed-$ID-demo.out || ! grep -q "^--- PASS\|^PASS\|^ok" /tmp/seed-$ID-demo.out; then echo fail; else echo pass; fi; rm -f /tmp/seed-$ID-demo.out; }
  DEMO_WITH=$(demo)
  # (no git stash: refs/stash is shared by all worktrees of /repo)
  git apply -R /tmp/seed-$ID-applied.diff
  DEMO_WITHOUT=$(demo)
  git apply /tmp/seed-$ID-applied.diff
  rm -f $WT/zz_seed_demo_test.go
fi
echo "confirm: build=$BUILD tests=$TESTS demo_with_change=$DEMO_WITH demo_without_change=$DEMO_WITHOUT"
# run the check against a patched scratch copy of /repo (overlay): /repo itself is not touched
cd /verif
OUT=$(bin/vcheck run $PROP --tier $TIER --patch /tmp/seed-$ID-applied.diff 2>&1); RC=$?
CLASSES=$(echo "$OUT" | grep "class:" | sed 's/ *class: //; s/ (cases.*//' | sort -u | head -8 | paste -sd';')
echo "$OUT" | tail -1
echo "RESULT $ID prop=$PROP tier=$TIER exit=$RC classes=$CLASSES"
mkdir -p /verif/seeded/$ID
cp /tmp/seed-$ID-applied.diff /verif/seeded/$ID/patch.diff
for f in demo_test.go notes.md; do [ -f $SRC/$f ] && cp $SRC/$f /verif/seeded/$ID/$f.txt; done
[ -d $SRC/demo ] && cp -r $SRC/demo /verif/seeded/$ID/demo
python3 - "$ID" "$PROP" "$TIER" "$RC" "$BUILD" "$TESTS" "$DEMO_WITH" "$DEMO_WITHOUT" "$CLASSES" <<'PY'
import json,sys,os
id,prop,tier,rc,build,tests,dw,dwo,classes=sys.argv[1:]
p=f'/verif/seeded/{id}/meta.json'
m={}
if os.path.exists(p): m=json.load(open(p))
m.update({"id":id,"breaks_property":prop,"confirmed":{"builds":build,"repo_tests_pass_with_change":tests,"demo_with_change":dw,"demo_without_change":dwo},
 "what_i_ran":[f"git worktree add; git apply patch.diff; go build ./... && go build -tags verif ./... && go vet .; go test -vet=off -count=1 ./... (x2); demo test with and without the change",
   f"bin/vcheck run {prop} --tier {tier} --patch seeded/{id}/patch.diff (applies the patch to a scratch copy of /repo substituted through go build -overlay); the first runs of this seed applied it with git -C /repo apply ... ; git -C /repo checkout -- ."]})
m.setdefault("runs",[]).append({"check":prop,"tier":tier,"exit":int(rc),"detected":int(rc)==1,"classes":classes.split(';') if classes else []})
json.dump(m,open(p,'w'),indent=1)
PY
