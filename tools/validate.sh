#!/bin/sh
# validates MANIFEST.json and all evidence files against the schemas
cd /verif && python3-vt - <<'PY'
import json,jsonschema,glob,sys
ok=True
try:
    jsonschema.validate(json.load(open('MANIFEST.json')), json.load(open('/root/.vp/MANIFEST.schema.json')))
except Exception as e:
    print('MANIFEST invalid:', e); ok=False
es=json.load(open('/root/.vp/EVIDENCE.schema.json'))
for f in sorted(glob.glob('evidence/*.json')):
    try: jsonschema.validate(json.load(open(f)), es)
    except Exception as e:
        print(f,'invalid:',str(e)[:300]); ok=False
print('valid' if ok else 'INVALID')
PY
